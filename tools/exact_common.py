"""exact_common.py — the experiment shared by C01 (valid basis) and C02 (minimum weight / returned value): run the three
sequential exact entry points on generated graphs (double, int and long long weights; the 64-bit ones above 2^53), compare mcb_sva_signed and
bidirectional_signed_dijkstra EXACTLY with the extracted SignedModel (oracles recovered from the run), and judge every
implementation answer (i) with the verified checker `mcbcheck` extracted from RefModel.v and (ii) with the independent
Python oracle.  Everything on the Python side (parsing, canonicalisation, judges) computes with Python integers: no float on the way."""
import json, os
import lib, gen, mcb_oracle as O

LIBS = ["-ltbb", "-lboost_timer"]
KEYS = ["ROOTS", "EORD", "RET", "N", "CYC"]
ALGS = ["signed", "fvs", "iso"]


def dense_small(rng):
    """a small dense graph with distinct-ish weights 1..100 and random edge order / orientation: supports with three and more entries while n is small"""
    n = rng.randint(5, 8)
    pairs = [(u, v) for u in range(n) for v in range(u + 1, n)]; rng.shuffle(pairs)
    m = rng.randint(n + 2, min(len(pairs), 2 * n + 3))
    return (n, [((u, v) if rng.random() < 0.5 else (v, u)) + (rng.randint(1, 100),) for (u, v) in pairs[:m]])


def gen_graph(rng, maxn):
    if maxn >= 8 and rng.random() < 0.2:
        return dense_small(rng), "dense-small"
    g = gen.structural(rng, maxn)
    g, style = gen.weigh(rng, g)
    return g, style


def alg_cases(rng, tier):
    ng = 700 if tier == "quick" else 5000
    maxn = 14 if tier == "quick" else 40
    cases = []
    for i in range(ng):
        g, style = gen_graph(rng, maxn if rng.random() < 0.9 else maxn + 10)
        gt = gen.graph_tokens(g)
        for alg in ALGS:
            ty = "I" if (i % 3 == ALGS.index(alg)) and gen.int_domain_ok(g) else "D"
            scale = 0 if ty == "I" else rng.choice([0, 0, -3, 5])
            cases.append(("A %s %s %d %s" % (alg, ty, scale, gt), g, style))
    # sparse graphs with few distinct weights (many equally heavy shortest paths that differ in several interior vertices, long even cycles): the
    # inputs on which the tie-breaking of the shortest-path trees decides what the tree-based variants' collections contain (seeded change C02/r4m1)
    for i in range(500 if tier == "quick" else 4000):
        n = rng.randint(6, 14 if tier == "quick" else 24)
        g = gen.random_connected_sparse(rng, n, rng.randint(1, 6))
        wmax = rng.choice([1, 1, 2, 3])
        g = (g[0], [(u, v, rng.randint(1, wmax)) for (u, v, _) in g[1]])
        gt = gen.graph_tokens(g)
        for alg in ("fvs", "iso"):
            cases.append(("A %s D 0 %s" % (alg, gt), g, "sparse-ties"))
    # small DENSE graphs with distinct weights in many edge orders, for the signed variant only: supports grow to three and more entries while n stays
    # small, searches are pruned by the running limit and come back empty — the inputs on which the bookkeeping of the hidden-edge heuristic matters
    # (seeded changes C08/r3m2, C02/r4m2, r5m2, r6m2: the erase of the processed signed edge skipped after an empty search)
    for i in range(900 if tier == "quick" else 6000):
        g = dense_small(rng)
        cases.append(("A signed %s 0 %s" % ("I" if i % 4 == 0 else "D", gen.graph_tokens(g)), g, "dense-small"))
    return cases


def gen_graph64(rng, maxn):
    """a graph with 64-bit integer weights above 2^53 for the `long long` instantiation (props/c12.py weigh64: sums that are not doubles, distinct
    weights that collide as doubles, (m+4)*sum(w) < 2^63)"""
    from props import c12
    r = rng.random()
    if r < 0.3: g = dense_small(rng)
    elif r < 0.5: g = gen.random_connected_sparse(rng, rng.randint(6, maxn), rng.randint(1, 6))
    else: g = gen.structural(rng, maxn)
    return c12.weigh64(rng, g)


def alg_cases64(rng, tier):
    """the three entry points instantiated with long long weights: A <alg> L 0 <graph>"""
    cases = []
    for i in range(170 if tier == "quick" else 1500):
        g, style = gen_graph64(rng, 14 if tier == "quick" else 30)
        gt = gen.graph_tokens(g)
        for alg in ALGS:
            cases.append(("A %s L 0 %s" % (alg, gt), g, "64:" + style))
    return cases


# ----------------------------------------------------------------------------------------------------------------
# double weights at the edge of the exact domain (seeded change C02/r7m2: a "rounding tolerant" comparison of cycle weights)
# ----------------------------------------------------------------------------------------------------------------
EXTREME_SCALES = [-1000, -300, -70, -20, 40, 300, 900]


def small_tight(rng):
    """a small dense / tie-heavy graph: n <= 7, m <= 12, random edge order and orientation (unit weights)"""
    r = rng.random()
    if r < 0.08: g = gen.complete(4)
    elif r < 0.16: g = gen.wheel(rng.randint(5, 7))
    elif r < 0.22: g = gen.bipartite(3, 3)
    elif r < 0.28: g = gen.bipartite(2, rng.randint(3, 5))
    elif r < 0.34: g = gen.theta(rng.randint(0, 1), rng.randint(1, 2), rng.randint(1, 2))
    else:
        n = rng.randint(4, 7)
        pairs = [(u, v) for u in range(n) for v in range(u + 1, n)]; rng.shuffle(pairs)
        m = rng.randint(min(n + 1, len(pairs)), min(len(pairs), rng.choice([9, 10, 12])))
        g = (n, [(u, v, 1) for (u, v) in pairs[:m]])
    return gen.relabel(rng, g[0], g[1])


def mantissa_weigh(rng, g):
    """integer weights that fill the mantissa of a double: W - r (or 2^b + r) with W ~ 2^53 / ((m+4)*m) and r in 0..3, so that every sum the
    algorithms can form is an integer below 2^53 ((m+4) * sum(w) < 2^53: inside the exact domain) while distinct cycle weights differ by a few units
    in 2^48 or so (relative 1e-14)"""
    n, es = g; m = max(1, len(es))
    W = (2 ** 53 - 1) // ((m + 4) * m)
    r = rng.random()
    if r < 0.45: base, sgn, style = W, -1, "top"                                             # W - r
    elif r < 0.75: base, sgn, style = 1 << ((W - 3).bit_length() - 1), 1, "pow2"               # 2^b + r
    else: base, sgn, style = rng.randint(W // 2, W - 3), rng.choice([-1, 1]), "mid"
    rmax = rng.choice([1, 2, 3, 3])
    few = rng.random() < 0.3                                                                  # most edges r = 0, a few heavier / lighter ones
    ws = []
    for _ in es:
        rr = (rng.randint(1, rmax) if rng.random() < 0.3 else 0) if few else rng.randint(0, rmax)
        ws.append(min(W, base + sgn * rr))
    assert (m + 4) * sum(ws) < 2 ** 53 and min(ws) > 0
    return (n, [(u, v, w) for (u, v, _), w in zip(es, ws)]), "mantissa-" + style


def alg_cases_fp(rng, tier):
    """(a) mantissa-heavy double weights on small dense / tie-heavy graphs, (b) ordinary weights under extreme power-of-two scales (values stay finite
    and normal: integer weights < 2^47 times 2^scale, |scale| <= 1000) - where a comparison of cycle weights "up to rounding noise" (relative or
    absolute tolerance) stops being the exact comparison although every sum is exactly representable"""
    cases = []
    for i in range(330 if tier == "quick" else 3000):
        g, style = mantissa_weigh(rng, small_tight(rng) if rng.random() < 0.8 else dense_small(rng))
        gt = gen.graph_tokens(g)
        sc = rng.choice([0, 0, 0, -3, 5, -60, 200])
        for alg in (ALGS if i % 3 else ["signed"]):
            cases.append(("A %s D %d %s" % (alg, sc, gt), g, style))
    for i in range(200 if tier == "quick" else 1500):
        g, style = gen_graph(rng, 10 if tier == "quick" else 16) if rng.random() < 0.6 else (dense_small(rng), "dense-small")
        gt = gen.graph_tokens(g)
        sc = rng.choice(EXTREME_SCALES)
        for alg in ALGS:
            cases.append(("A %s D %d %s" % (alg, sc, gt), g, style + "@2^%d" % sc))
    return cases


# ----------------------------------------------------------------------------------------------------------------
# graphs with LONG cycles and few of them (seeded change C01/r7m2: a shortcut in SpVecGF2 * std::set taken only when the set is 32 times longer
# than the sparse vector)
# ----------------------------------------------------------------------------------------------------------------
def long_cycle_graph(rng):
    """n ~ 50..130, cycle space dimension 2..4, every basis cycle with 33 edges or more: rings with heavy chords, theta graphs with three long
    paths, ladders with few rungs, long cycles sharing a long path; random relabelling and edge order (which edges the spanning forest leaves out decides
    what the witnesses look like)"""
    r = rng.random()
    if r < 0.30:
        n = rng.randint(48, 64); es = [(i, (i + 1) % n, rng.choice([1, 1, 2, 3])) for i in range(n)]
        chords = set()
        for _ in range(rng.choice([1, 1, 2])):
            a = rng.randrange(n); b = (a + rng.randint(n // 3, n // 2)) % n
            if a != b and (min(a, b), max(a, b)) not in chords:
                chords.add((min(a, b), max(a, b))); es.append((a, b, rng.choice([n, 2 * n, 3 * n + 1, 100 * n])))     # heavy: the ring itself stays in the basis
        style = "ring+heavy-chords"
    elif r < 0.62:
        a, b, c = rng.choice([(17, 19, 29), (39, 40, 41), (16, 33, 40), (20, 20, 20), (33, 34, 35), (18, 30, 50), (25, 25, 40)])
        n, es = gen.theta(a, b, c); style = "theta-long"
        wm = rng.choice([1, 1, 2, 4])
        es = [(u, v, rng.randint(1, wm)) for (u, v, _) in es]
    elif r < 0.82:
        L = rng.randint(24, 50); rungs = sorted(set([0, L - 1] + [rng.randrange(L) for _ in range(rng.choice([0, 1, 1, 2]))]))
        wm = rng.choice([1, 2, 3])
        es = [(i, i + 1, rng.randint(1, wm)) for i in range(L - 1)] + [(L + i, L + i + 1, rng.randint(1, wm)) for i in range(L - 1)]
        es += [(i, L + i, rng.choice([1, 5, L])) for i in rungs]
        n = 2 * L; style = "ladder-few-rungs"
    else:
        # two or three long cycles through one common long path
        P = rng.randint(20, 36); n = P + 1; es = [(i, i + 1, 1) for i in range(P)]
        for _ in range(rng.choice([2, 2, 3])):
            q = rng.randint(14, 30); prev = 0
            for _ in range(q):
                es.append((prev, n, rng.choice([1, 1, 2]))); prev = n; n += 1
            es.append((prev, P, 1))
        style = "long-cycles-common-path"
    if rng.random() < 0.25:                                  # a pendant path / an isolated vertex: bridges and components
        es.append((rng.randrange(n), n, 7)); n += 1
        if rng.random() < 0.5: n += 1
    g = gen.relabel(rng, n, es)
    return g, style


def long_cycle_cases(rng, tier):
    cases = []
    for i in range(42 if tier == "quick" else 400):
        g, style = long_cycle_graph(rng)
        gt = gen.graph_tokens(g)
        for alg in ALGS:
            ty = "I" if (i % 3 == ALGS.index(alg)) else "D"
            cases.append(("A %s %s %d %s" % (alg, ty, 0 if ty == "I" else rng.choice([0, 0, -3, 5]), gt), g, style))
    return cases


def small_exhaustive_cases(maxv=5):
    """all simple graphs on <= maxv labelled vertices with weights from {1,2} varied by edge position (thorough)"""
    out = []
    for n in range(3, maxv + 1):
        for (nn, es) in gen.all_graphs(n):
            m = len(es)
            if m - nn + gen.components(nn, es) < 1: continue
            for pat in range(min(1 << m, 4)):      # a few weight patterns per graph (all-1, alternating, ...)
                ws = [1 + ((pat >> (k % 2)) & 1) * ((k + pat) % 2) for k in range(m)]
                g = (nn, [(u, v, w) for (u, v, _), w in zip(es, ws)])
                for alg in ALGS:
                    out.append(("A %s D 0 %s" % (alg, gen.graph_tokens(g)), g, "exh"))
    return out


def bidir_cases(rng, tier, long64=False, fp=False):
    """direct search calls; long64: the long long instantiation on 64-bit weights above 2^53 (B L ...); fp: double weights at the edge of the exact
    domain - mantissa-heavy weights (B D ...) and ordinary weights under extreme power-of-two scales (B D:<scale> ...), limits next to sums of a few edges"""
    nb = (5000 if tier == "quick" else 40000) if not (long64 or fp) else (800 if tier == "quick" else 6000)
    maxn = 12 if tier == "quick" else 24
    cases = []
    while len(cases) < nb:
        fty = "D"
        if fp and rng.random() < 0.6:
            g, style = mantissa_weigh(rng, small_tight(rng) if rng.random() < 0.8 else dense_small(rng))
            if rng.random() < 0.3: fty = "D:%d" % rng.choice([-3, 5, -60, 200])
        elif fp:
            g, style = gen_graph(rng, 10); fty = "D:%d" % rng.choice(EXTREME_SCALES)
        else:
            g, style = gen_graph64(rng, maxn) if long64 else gen_graph(rng, maxn)
        n, es = g
        if n < 2 or not es: continue
        m = len(es)
        for _ in range(4):
            k = rng.choice([1, 1, 2, 3, max(1, m // 2), m])
            sg = sorted(rng.sample(range(m), min(k, m)))
            mode = rng.random()
            if mode < 0.5:      # all-vertices style: v+ -> v-
                s = rng.randrange(n); t = s; spos, tpos = 1, 0; uh = 0; hd = []
            elif mode < 0.9:    # hidden-edge style: endpoints of a signed edge, a suffix of the signed set hidden
                e = rng.choice(sg); s, t = es[e][0], es[e][1]; spos = tpos = 1; uh = 1
                hd = sg[sg.index(e):] if rng.random() < 0.7 else sorted(rng.sample(sg, rng.randint(1, len(sg))))
            else:
                s, t = rng.randrange(n), rng.randrange(n); spos, tpos = rng.randint(0, 1), rng.randint(0, 1); uh = rng.randint(0, 1)
                hd = sorted(rng.sample(range(m), rng.randint(0, min(3, m))))
                if s == t and spos == tpos: continue
            tot = sum(w for _, _, w in es)
            lim = "-" if rng.random() < 0.4 else str(rng.randint(1, max(2, tot // 2 + 2)))
            if fp and lim != "-" and rng.random() < 0.8:      # a limit next to the weight of a few edges (where a found path is just inside / outside)
                lim = str(max(1, sum(es[j][2] for j in rng.sample(range(m), min(m, rng.randint(1, 5)))) + rng.choice([-1, 0, 0, 1, 2])))
            ty = fty if fp else "L" if long64 else "D" if rng.random() < 0.7 or not gen.int_domain_ok(g) else "I"
            cases.append("B %s %d %d %d %d %d %s %d %s %d %s %s" % (ty, uh, s, spos, t, tpos, lim, len(sg), " ".join(map(str, sg)),
                                                                 len(hd), " ".join(map(str, hd)), gen.graph_tokens(g)))
    return cases[:nb]


def bidir_history(rng, ncalls):
    """one bidirectional_signed_dijkstra call per line, all made by ONE thread of ONE process (state surviving between calls); see gen.history_plan"""
    fresh, private = gen.history_plan(ncalls)
    out = []
    def line(g, s, sg):
        return "B D 0 %d 1 %d 0 - %d %s 0  %s" % (s, s, len(sg), " ".join(map(str, sg)), gen.graph_tokens(g))
    for i in range(1, ncalls + 1):
        if i in fresh:
            n = fresh[i]; g = (n, [(j, (j + 1) % n, 1) for j in range(n)]); out.append(line(g, 0, [0]))
        elif i in private:
            n = private[i]; g = (n, [(0, n - 3, 1), (n - 3, n - 2, 1), (n - 2, n - 1, 1), (n - 1, 0, 1)]); out.append(line(g, 0, [1]))
        else:
            g, _ = gen_graph(rng, 6)
            n, es = g
            if n < 2 or not es: g = (3, [(0, 1, 1), (1, 2, 2), (2, 0, 1)]); n, es = g
            m = len(es)
            sg = sorted(rng.sample(range(m), min(rng.choice([1, 1, 2, 3]), m)))
            out.append(line(g, rng.randrange(n), sg))
    return out


def model_case_of(case, impl):
    """model input for an `A signed` case: graph + recovered roots + recovered pointer ranks"""
    t = case.split()
    f = lib.fields(impl, KEYS)
    roots, eord = f.get("ROOTS", []), f.get("EORD", [])
    return "%s %d %s %d %s" % (" ".join(t[4:]), len(roots), " ".join(roots), len(eord), " ".join(eord))


def canon_alg(line):
    """RET/N/cycles with each cycle sorted (the implementation emits a cycle in pointer order)"""
    try:
        ret, cycles = O.parse_alg_output(line)
    except Exception:
        return line
    def k(x): return (0, x) if isinstance(x, int) else (1, str(x))
    return ("RET %s N %d CYC %s" % (ret, len(cycles), " ".join("%d %s" % (len(c), " ".join(map(str, sorted(c, key=k)))) for c in cycles))).strip()


def ref_case(g, cycles):
    n, es = g
    roots = list(range(n))
    return "%s %d %s %d %s" % (gen.graph_tokens(g), len(roots), " ".join(map(str, roots)), len(cycles),
                               " ".join("%d %s" % (len(c), " ".join(map(str, c))) for c in cycles))


def have_ref():
    return os.path.exists(os.path.join(lib.COQ, "extract", "Extract_ref.v")) and os.path.exists(os.path.join(lib.ROOT, "ocaml", "driver_ref.ml"))


def run(c, tier, what):
    """what = 'basis' (C01) or 'weight' (C02). Fills the Check `c` with violations; returns nothing."""
    ok = c.step_model("sva")
    refok = have_ref() and c.step_model("ref")
    exe = c.harness(name="c01", srcs=["c01.cpp"], libs=LIBS)
    if not (ok and exe):
        return
    pid = c.pid
    acases = [(cs, None, "corpus") for cs in lib.corpus_cases(pid) if cs.startswith("A ")]
    bcases = [cs for cs in lib.corpus_cases(pid) if cs.startswith("B ")]
    c.extra["corpus_cases"] = len(acases) + len(bcases)
    acases += alg_cases(c.rng, tier)
    if tier == "thorough":
        acases += small_exhaustive_cases(5)
    bcases += bidir_cases(c.rng, tier)
    # the 64-bit integer instantiation (generated last: the double / int streams above are unchanged)
    acases += alg_cases64(c.rng, tier)
    bcases += bidir_cases(c.rng, tier, long64=True)
    # double weights at the edge of the exact domain and graphs with long cycles (own generator streams: everything above is unchanged)
    import random
    acases += alg_cases_fp(random.Random(c.seed * 7919 + 71), tier)
    bcases += bidir_cases(random.Random(c.seed * 7919 + 72), tier, fp=True)
    acases += long_cycle_cases(random.Random(c.seed * 7919 + 73), tier)
    c.rule += ("; plus the same entry points and search calls instantiated with long long weights above 2^53 (2^53+r, 2^54+{0..3}, 2^54+permutation, 2^b+r up to "
               "b = 60, heavy/light mixes; (m+4)*sum(w) < 2^63)"
               "; plus double weights at the edge of the exact domain: mantissa-heavy integers W-r / 2^b+r with W ~ 2^53/((m+4)m), r in 0..3, on small dense and "
               "tie-heavy graphs (n <= 8) and ordinary weights scaled by 2^s, s in {-1000,-300,-70,-20,40,300,900} (entry points and direct search calls)"
               "; plus sparse graphs with long cycles (n ~ 50..130, cycle space dimension 2..4, cycles of 33..100 edges: rings with heavy chords, long theta graphs, "
               "ladders with few rungs, long cycles through a common path; relabelled)")
    lines = [a[0] for a in acases]
    io = lib.run_lines([exe], lines)
    # ---- the two non-default build configurations the project supports: same returned value and count, and a valid basis there too ----
    def _canon(o):
        try:
            r, cy = O.parse_alg_output(o); return (r, len(cy))
        except Exception:
            return o
    def _judge(cs, o):
        t = cs.split(); n_, es_, _ = lib.parse_graph_tokens(t, 4)
        if " RET " not in " " + o: return "%s did not return: %s" % (t[1], o[:160])
        try:
            r, cy = O.parse_alg_output(o)
        except Exception:
            return "unparsable answer: " + o[:160]
        why_ = O.judge_basis(n_, es_, cy)
        if why_: return "%s: %s" % (t[1], why_)
        tot_ = sum(es_[i][2] for c_ in cy for i in c_ if isinstance(i, int) and 0 <= i < len(es_))
        if isinstance(r, int) and r != tot_: return "%s: returned value %s != total weight %s of the emitted cycles" % (t[1], r, tot_)
        return None
    lib.config_differential(c, "c01", ["c01.cpp"], lines, io, judge=_judge, canon=_canon, libs=LIBS, limit=1200, judge_all=True)
    # ---- E-level: mcb_sva_signed vs model -------------------------------------------------------
    sidx = [i for i, l in enumerate(lines) if l.split()[1] == "signed" and " RET " in io[i]]
    mo = lib.run_model("signed", [model_case_of(lines[i], io[i]) for i in sidx], group="sva")
    model_out = dict(zip(sidx, mo))
    # ---- judge every answer ---------------------------------------------------------------------
    parsed = {}
    for i, l in enumerate(lines):
        t = l.split(); n, es, _ = lib.parse_graph_tokens(t, 4)
        parsed[i] = (n, es)
    opts = {}
    nviol = {}
    def report(kind, i, why, found=True, extra=None):
        if nviol.get(kind, 0) >= 3: return
        nviol[kind] = nviol.get(kind, 0) + 1
        rep = {"component": "c01", "case": lines[i], "impl": io[i]}
        if i in model_out: rep["model"] = model_out[i]; rep["model_case"] = model_case_of(lines[i], io[i])
        rep.update(extra or {})
        c.violation(why, rep, found)
    refq = []     # (index) to send to the verified checker
    for i, l in enumerate(lines):
        n, es = parsed[i]
        t = l.split(); alg = t[1]
        m = len(es); N = m - n + O.components(n, es)
        nontrivial = N >= 2
        c.count(l, nontrivial, bucket="%s %s N%s" % (alg, t[2], "0" if N == 0 else "1" if N == 1 else "2-5" if N <= 5 else "6-15" if N <= 15 else ">15"))
        if io[i].startswith(("IMPL-EXCEPTION", "CRASH")) or " RET " not in " " + io[i]:
            report("crash", i, "%s on a valid input did not return: %s" % (alg, io[i][:200])); continue
        try:
            ret, cycles = O.parse_alg_output(io[i])
        except Exception:
            report("crash", i, "unparsable answer of %s: %s" % (alg, io[i][:200])); continue
        key = gen.graph_tokens((n, es))
        if what == "basis":
            why = O.judge_basis(n, es, cycles)
            if why: report("judge", i, "%s: %s" % (alg, why))
        else:
            if key not in opts: opts[key] = O.mcb(n, es)
            why = O.judge_weight(n, es, cycles, ret, opts[key]) if isinstance(ret, int) else "returned value %s is not an exact integer multiple of the weight unit" % ret
            if why: report("judge", i, "%s: %s" % (alg, why))
        # (the verified checker is run on the small cases and on sparse larger ones: long cycles, cycle space dimension <= 4, where it is still fast)
        if refok and ((n <= (16 if tier == "quick" else 22) and m <= 45) or (n <= 70 and N <= 4)) and all(isinstance(x, int) for cy in cycles for x in cy):
            refq.append(i)
        if i in model_out and canon_alg(io[i]) != model_out[i].strip():
            bw = O.judge_basis(n, es, cycles) if what == "basis" else (O.judge_weight(n, es, cycles, ret) if isinstance(ret, int) else "non-integer weight")
            if bw:
                report("corr-judge", i, "mcb_sva_signed: " + bw)
            else:
                report("corr", i, "correspondence mcb_sva_signed vs extracted SignedModel (exact cycles under recovered root/pointer order) no longer checks; "
                       "the implementation's answer still satisfies the property text", False,
                       {"theorem_or_correspondence": "correspondence c01/signed: SignedModel.mcb_sva_signed_Z vs harness/c01.cpp"})
    # ---- verified checker ------------------------------------------------------------------------
    c.extra["verified_checker_cases"] = 0
    if refok and refq:
        rl = []
        for i in refq:
            ret, cycles = O.parse_alg_output(io[i]); rl.append(ref_case(parsed[i], cycles))
        ro = lib.run_model("mcbcheck", rl, group="ref", timeout=1500)
        c.extra["verified_checker_cases"] = len(rl)
        for i, r in zip(refq, ro):
            f = lib.fields(r, ["SIMPLE", "BASIS", "OPT", "TOTAL", "MIN"])
            if r.startswith(("MODEL-", "CRASH", "ERR")) or "BASIS" not in f:
                report("ref-fail", i, "verified checker mcbcheck failed to run: " + r[:200], False,
                       {"theorem_or_correspondence": "extracted RefModel.mcb_checkb", "ref": r}); continue
            if what == "basis" and f["BASIS"][0] != "1":
                report("ref", i, "verified checker: emitted family is not a cycle basis (SIMPLE %s BASIS %s)" % (f["SIMPLE"][0] if f["SIMPLE"] else "", f["BASIS"][0]), True, {"ref": r})
            if what == "weight" and f["MIN"][0] != "1":
                report("ref", i, "verified checker: emitted family is not a minimum cycle basis (total %s, optimum %s)" % (f["TOTAL"][0], f["OPT"][0]), True, {"ref": r})
    elif not refok:
        c.notes.append("verified checker (RefModel) not available in this run")
    # ---- acceptance level: the tree-based variants' runs replayed through TreesModel ---------------
    try:
        import trees_common
        trees_common.run_trees(c, tier, what, lines=lines, io=io)
    except ImportError:
        c.notes.append("trees acceptance model not available")
    # ---- E-level: bidirectional_signed_dijkstra vs model ----------------------------------------
    bio = lib.run_lines([exe], bcases)
    bmo = lib.run_model("bidir", [" ".join(b.split()[2:]) for b in bcases], group="sva")
    nb = 0
    for b, x, y in zip(bcases, bio, bmo):
        c.count(b, x.startswith("F "), bucket="bidir " + ("found" if x.startswith("F ") else "notfound"))
        if x != y and nb < 3:
            nb += 1
            c.violation("correspondence bidirectional_signed_dijkstra vs extracted SignedModel.bidir_Z no longer checks (found/weight/edge set differ)",
                        {"component": "c01", "case": b, "impl": x, "model": y,
                         "theorem_or_correspondence": "correspondence c01/bidir: SignedModel.bidirectional_signed_dijkstra vs harness/c01.cpp"}, False)
    c.extra["bidir_calls"] = len(bcases)
    # ---- a long history of search calls by ONE thread (state surviving between calls) --------------------
    import random
    nh = 70000 if tier == "quick" else 140000
    hist = bidir_history(random.Random(c.seed * 7919 + 1), nh)
    hio = lib.run_lines([exe], hist, par=1)
    hmo = lib.run_model("bidir", [" ".join(b.split()[2:]) for b in hist], group="sva")
    c.extra["long_history_calls"] = nh
    nb = 0
    for j, (b, x, y) in enumerate(zip(hist, hio, hmo)):
        c.count(b, x.startswith("F "), bucket="bidir history")
        if x != y and nb < 2:
            nb += 1
            c.violation("correspondence bidirectional_signed_dijkstra vs extracted SignedModel.bidir_Z no longer checks at call %d of a single-thread history of calls "
                        "(found/weight/edge set differ)" % (j + 1),
                        {"component": "c01", "case": b, "impl": x, "model": y, "history": {"seed": c.seed, "ncalls": nh, "index": j},
                         "theorem_or_correspondence": "correspondence c01/bidir: SignedModel.bidirectional_signed_dijkstra vs harness/c01.cpp (call history)"}, False)
    c.extra["signed_exact_runs"] = len(sidx)


def replay_case(pid, path, what):
    r = json.load(open(path))
    if r.get("component") == "trees":
        import trees_common
        r["_path"] = path
        return trees_common.replay_case(pid, r, what)
    lib.ensure_model("sva")
    exe, err = lib.build_cpp(name="c01", srcs=["c01.cpp"], libs=LIBS)
    line = r["case"]
    if "history" in r:       # the failure needs the calls made before it by the same thread: regenerate the stream and run its prefix
        import random
        h = r["history"]
        hist = bidir_history(random.Random(h["seed"] * 7919 + 1), h["ncalls"])[:h["index"] + 1]
        assert hist[-1] == line, "history stream not reproducible"
        o = lib.run_lines([exe], hist, par=1)[-1]
    else:
        o = lib.run_lines([exe], [line], par=1)[0]
    print("case:", line); print("impl:", o)
    bad = None
    if line.startswith("B "):
        m = lib.run_model("bidir", [" ".join(line.split()[2:])], par=1, group="sva")[0]; print("model:", m)
        if m != o: bad = "differs from model"
    else:
        t = line.split(); n, es, _ = lib.parse_graph_tokens(t, 4)
        try:
            ret, cycles = O.parse_alg_output(o)
            bad = O.judge_basis(n, es, cycles) if what == "basis" else O.judge_weight(n, es, cycles, ret)
        except Exception as ex:
            bad = "no answer: %s" % o[:100]
        if t[1] == "signed" and not bad:
            m = lib.run_model("signed", [model_case_of(line, o)], par=1, group="sva")[0]; print("model:", m)
            if m.strip() != canon_alg(o): bad = "differs from model"
    print("judge:", bad)
    if bad:
        print("VIOLATION property=%s replay=%s" % (pid, path)); return 1
    return 0
