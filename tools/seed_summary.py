#!/usr/bin/env python3
"""seed_summary.py — per-property summary of seeded/results.json as a markdown table (pasted into DESIGN.md §15)."""
import json, os
ROOT = os.path.dirname(os.path.dirname(os.path.abspath(__file__)))
r = json.load(open(os.path.join(ROOT, "seeded", "results.json")))
rows = {}
for k, x in r.items():
    pid = x["property"]
    d = rows.setdefault(pid, {"n": 0, "fi": 0, "corr": 0, "miss": 0, "names_corr": [], "names_miss": []})
    d["n"] += 1
    det = "DETECTED" in x.get("checks", {}).values()
    if not det: d["miss"] += 1; d["names_miss"].append(x["name"])
    elif x.get("failing_input_found"): d["fi"] += 1
    else: d["corr"] += 1; d["names_corr"].append(x["name"])
import sys, io
_buf = io.StringIO(); _out = sys.stdout; sys.stdout = _buf
print("| property | seeded changes | detected with a failing input | detected by a broken correspondence / proof obligation only | missed |")
print("|---|---|---|---|---|")
tot = [0, 0, 0, 0]
for pid in sorted(rows):
    d = rows[pid]
    print("| %s | %d | %d | %d%s | %d%s |" % (pid, d["n"], d["fi"], d["corr"], (" (" + ", ".join(sorted(d["names_corr"])) + ")") if d["names_corr"] else "",
                                         d["miss"], (" (" + ", ".join(d["names_miss"]) + ")") if d["names_miss"] else ""))
    tot = [tot[0] + d["n"], tot[1] + d["fi"], tot[2] + d["corr"], tot[3] + d["miss"]]
print("| total | %d | %d | %d | %d |" % tuple(tot))

sys.stdout = _out
table = _buf.getvalue()
print(table, end="")
if "--design" in sys.argv:
    dp = os.path.join(ROOT, "DESIGN.md")
    d = open(dp).read()
    a, b = d.index("<!-- SEED-SUMMARY-BEGIN -->") + len("<!-- SEED-SUMMARY-BEGIN -->"), d.index("<!-- SEED-SUMMARY-END -->")
    open(dp, "w").write(d[:a] + "\n" + table + d[b:])
