#!/usr/bin/env python3
"""setup.py — MANIFEST.setup_cmd: build the Coq development (full .vo build of every theories/*.v), extract and
compile every OCaml model driver (coq/extract/Extract*.v).  Offline, from files on disk only."""
import glob, os, re, sys
sys.path.insert(0, os.path.dirname(os.path.abspath(__file__)))
import lib
ok, log = lib.coq_make(timeout=7200)
if not ok:
    print(log); print("setup: coq build FAILED"); sys.exit(1)
for f in sorted(glob.glob(os.path.join(lib.COQ, "extract", "Extract*.v"))):
    m = re.match(r"Extract(?:_(\w+))?\.v$", os.path.basename(f))
    ok, log = lib.ensure_model(m.group(1))
    if not ok:
        print(log); print("setup: model build FAILED for", f); sys.exit(1)
print("setup ok")
