#!/usr/bin/env python3
"""setup.py — MANIFEST.setup_cmd: build the Coq development (full .vo build), extract and compile the
OCaml model driver. Offline, from files on disk only."""
import os, sys
sys.path.insert(0, os.path.dirname(os.path.abspath(__file__)))
import lib
rc, so, se = lib.sh("coq_makefile -f _CoqProject -o Makefile", cwd=lib.COQ, timeout=120)
if rc != 0:
    print(so + se); sys.exit(1)
ok, log = lib.coq_make(timeout=7200)
if not ok:
    print(log); sys.exit(1)
ok, log = lib.ensure_model()
if not ok:
    print(log); sys.exit(1)
print("setup ok")
