"""mcb_oracle.py — an independent Python judge for cycle bases (used to triage disagreements and to judge every
implementation answer against the property text; NOT a proof — the verified judge is the extracted `mcbcheck`
of coq/theories/RefModel.v).  Graph = (n, [(u, v, w)]) with integer weights, edge id = position."""
import heapq


def components(n, es):
    par = list(range(n))
    def find(x):
        while par[x] != x:
            par[x] = par[par[x]]; x = par[x]
        return x
    for e in es:
        a, b = find(e[0]), find(e[1])
        if a != b: par[a] = b
    return len({find(x) for x in range(n)})


def simple_cycle_problem(n, es, ids):
    """None if ids (list of edge ids, any order) is a non-empty list of distinct edges of g forming one simple cycle"""
    if not ids: return "empty cycle"
    if len(set(ids)) != len(ids): return "repeated edge in a cycle"
    if any((not isinstance(i, int)) or i < 0 or i >= len(es) for i in ids): return "edge that is not an edge of the input graph"
    deg = {}; adj = {}
    for i in ids:
        u, v, _ = es[i]
        if u == v: return "self-loop in cycle"
        for a, b in ((u, v), (v, u)):
            deg[a] = deg.get(a, 0) + 1; adj.setdefault(a, []).append(b)
    if any(d != 2 for d in deg.values()): return "a vertex of the cycle has degree %s != 2" % sorted(set(deg.values()))
    start = next(iter(deg)); seen = {start}; st = [start]
    while st:
        x = st.pop()
        for y in adj[x]:
            if y not in seen: seen.add(y); st.append(y)
    if len(seen) != len(deg): return "edge set is a union of several cycles, not one simple cycle"
    return None


def gf2_rank(masks):
    piv = {}
    r = 0
    for v in masks:
        while v:
            h = v.bit_length() - 1
            if h in piv: v ^= piv[h]
            else: piv[h] = v; r += 1; break
    return r


def mask_of(ids):
    m = 0
    for i in ids: m ^= (1 << i)
    return m


def _sptree(n, adj, s):
    dist = {s: 0}; pred = {s: None}; pq = [(0, s)]; done = set()
    while pq:
        d, u = heapq.heappop(pq)
        if u in done: continue
        done.add(u)
        for (v, w, e) in adj[u]:
            nd = d + w
            if v not in dist or nd < dist[v]:
                dist[v] = nd; pred[v] = (u, e); heapq.heappush(pq, (nd, v))
    return dist, pred


def mcb(n, es):
    """(optimum weight, sorted cycle weights, dimension) by Horton's candidate set + greedy Gaussian elimination"""
    m = len(es); N = m - n + components(n, es)
    adj = [[] for _ in range(n)]
    for i, (u, v, w) in enumerate(es):
        adj[u].append((v, w, i)); adj[v].append((u, w, i))
    cands = []
    for s in range(n):
        dist, pred = _sptree(n, adj, s)
        def path(x):
            p = []; vs = []
            while pred[x] is not None:
                u, e = pred[x]; p.append(e); vs.append(x); x = u
            return p, vs
        tree = {pe[1] for pe in pred.values() if pe is not None}
        for i, (u, v, w) in enumerate(es):
            if i in tree or u not in dist or v not in dist: continue
            pu, vu = path(u); pv, vv = path(v)
            if set(vu) & set(vv): continue
            cands.append((dist[u] + dist[v] + w, mask_of(pu + pv + [i])))
    cands.sort()
    piv = {}; ws = []
    for w, v in cands:
        if len(ws) == N: break
        while v:
            h = v.bit_length() - 1
            if h in piv: v ^= piv[h]
            else: piv[h] = v; ws.append(w); break
    return sum(ws), ws, N


def judge_basis(n, es, cycles):
    """C01: None or a reason. cycles = list of lists of edge ids (raw, as emitted)"""
    m = len(es); N = m - n + components(n, es)
    if len(cycles) != N: return "emitted %d cycles, cycle space dimension m-n+c is %d" % (len(cycles), N)
    for j, c in enumerate(cycles):
        p = simple_cycle_problem(n, es, c)
        if p: return "cycle #%d %s: %s" % (j, c, p)
    if gf2_rank([mask_of(c) for c in cycles]) != N: return "emitted cycles are linearly dependent over GF(2)"
    return None


def judge_weight(n, es, cycles, ret, opt=None):
    """C02: None or a reason; ret = returned value (int)"""
    tot = sum(es[i][2] for c in cycles for i in c if isinstance(i, int) and 0 <= i < len(es))
    if ret != tot: return "returned value %s != total weight %s of the emitted cycles" % (ret, tot)
    if opt is None: opt = mcb(n, es)
    if tot != opt[0]: return "total weight %s is not the minimum %s over all cycle bases" % (tot, opt[0])
    ws = sorted(sum(es[i][2] for i in c) for c in cycles)
    if ws != sorted(opt[1]): return "sorted cycle weights %s differ from those of a minimum basis %s" % (ws, sorted(opt[1]))
    return None


def parse_alg_output(line):
    """'... RET w N k CYC len ids ...' -> (ret:int|str, cycles) ; raises on garbage"""
    t = line.split()
    i = t.index("RET"); ret = t[i + 1]
    try: ret = int(ret)
    except ValueError: pass
    j = t.index("N"); k = int(t[j + 1])
    p = t.index("CYC") + 1; cycles = []
    for _ in range(k):
        L = int(t[p]); p += 1
        cyc = []
        for x in t[p:p + L]:
            cyc.append(int(x) if x.lstrip("-").isdigit() else x)
        p += L; cycles.append(cyc)
    return ret, cycles
