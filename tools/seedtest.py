#!/usr/bin/env python3
"""seedtest.py — run checks against a seeded change without touching /repo:
   python3 tools/seedtest.py <patch.diff> Cxx [Cyy ...] [--tier quick|thorough] [--keep]
creates a scratch worktree of /repo's HEAD under /tmp/seedtest/<id>, applies the patch, runs the checks with
VERIF_REPO / VERIF_BUILD pointing there, prints one line per check (DETECTED / missed + the violation lines), removes the worktree."""
import hashlib, os, subprocess, sys, shutil

ROOT = os.path.dirname(os.path.dirname(os.path.abspath(__file__)))


def main():
    args = [a for a in sys.argv[1:] if not a.startswith("--")]
    tier = "quick"
    if "--tier" in sys.argv: tier = sys.argv[sys.argv.index("--tier") + 1]; args = [a for a in args if a != tier]
    keep = "--keep" in sys.argv
    patch = os.path.abspath(args[0]); pids = args[1:]
    tag = hashlib.md5((patch + str(os.getpid())).encode()).hexdigest()[:8]
    base = "/tmp/seedtest/" + tag
    os.makedirs(base, exist_ok=True)
    repo = base + "/repo"
    subprocess.run(["git", "-C", "/repo", "worktree", "add", "--detach", "-f", repo, "HEAD"], check=True, capture_output=True)
    rc = 0
    try:
        p = subprocess.run(["git", "-C", repo, "apply", patch], capture_output=True, text=True)
        if p.returncode != 0:
            p = subprocess.run(["git", "-C", repo, "apply", "--3way", patch], capture_output=True, text=True)
        if p.returncode != 0:
            print("PATCH DOES NOT APPLY:", p.stderr[-500:]); return 2
        env = dict(os.environ, VERIF_REPO=repo, VERIF_BUILD=base + "/build")
        # the extracted models do not depend on /repo: reuse the ones already built (their stamps are content hashes)
        os.makedirs(base + "/build", exist_ok=True)
        import glob
        for f in glob.glob(os.path.join(ROOT, "build", "model*")):
            if os.path.isfile(f): shutil.copy2(f, base + "/build/")
        for pid in pids:
            q = subprocess.run([sys.executable, os.path.join(ROOT, "tools", "check.py"), pid, "--tier", tier], cwd=ROOT, env=env,
                               capture_output=True, text=True)
            viol = [l for l in q.stdout.splitlines() if l.startswith(("VIOLATION", "DETAIL"))]
            print("%s %s: %s (exit %d)" % (os.path.basename(os.path.dirname(patch)) or patch, pid, "DETECTED" if q.returncode != 0 and viol else "missed", q.returncode))
            for l in viol[:40]: print("    " + l[:300])
            if q.returncode == 0: rc = 1
    finally:
        if not keep:
            subprocess.run(["git", "-C", "/repo", "worktree", "remove", "--force", repo], capture_output=True)
            shutil.rmtree(base, ignore_errors=True)
    return rc


if __name__ == "__main__":
    sys.exit(main())
