#!/usr/bin/env python3
"""seed_report.py — runs every kept seeded change (seeded/<id>/<name>/patch.diff) against the check of its property (quick tier, scratch
worktree, /repo untouched) and writes seeded/RESULTS.md + seeded/results.json: which change is detected, how (failing input found /
correspondence only), with the first violation lines.   python3 tools/seed_report.py [Cxx ...] [-j N] [--prefix r3]"""
import concurrent.futures as cf, json, os, re, subprocess, sys, time

ROOT = os.path.dirname(os.path.dirname(os.path.abspath(__file__)))
EXTRA = {"C09": ["C09"], "C07": ["C07"]}


def run_one(pid, name):
    d = os.path.join(ROOT, "seeded", pid, name)
    patch = os.path.join(d, "patch.diff")
    checks = EXTRA.get(pid, [pid])
    t0 = time.time()
    p = subprocess.run([sys.executable, os.path.join(ROOT, "tools", "seedtest.py"), patch] + checks, cwd=ROOT, capture_output=True, text=True, timeout=7200)
    out = p.stdout
    res = {"property": pid, "name": name, "wall_s": round(time.time() - t0), "checks": {}}
    for ck in checks:
        m = re.search(r"%s %s: (DETECTED|missed)" % (re.escape(name), ck), out)
        res["checks"][ck] = m.group(1) if m else "error"
    details = [l.strip() for l in out.splitlines() if l.strip().startswith("DETAIL")]
    viol = [l.strip() for l in out.splitlines() if l.strip().startswith("VIOLATION")]
    res["failing_input_found"] = any("no-failing-input-found" not in v for v in viol)
    res["first_details"] = [x[:300] for x in details[:2]]
    try:
        res["summary"] = json.load(open(os.path.join(d, "meta.json"))).get("summary", "")[:300]
        res["needs"] = json.load(open(os.path.join(d, "meta.json"))).get("needs", "")[:300]
    except Exception:
        res["summary"] = ""
    return res


def main():
    args = [a for a in sys.argv[1:] if not a.startswith("-")]
    j = int(sys.argv[sys.argv.index("-j") + 1]) if "-j" in sys.argv else 2
    args = [a for a in args if not a.isdigit()]
    prefix = sys.argv[sys.argv.index("--prefix") + 1] if "--prefix" in sys.argv else ""     # only the changes of one seeding round (e.g. r3)
    args = [a for a in args if a != prefix]
    jobs = []
    for pid in sorted(os.listdir(os.path.join(ROOT, "seeded"))):
        if args and pid not in args: continue
        pd = os.path.join(ROOT, "seeded", pid)
        if not os.path.isdir(pd): continue
        for name in sorted(os.listdir(pd)):
            if os.path.exists(os.path.join(pd, name, "patch.diff")) and name.startswith(prefix): jobs.append((pid, name))
    resf = os.path.join(ROOT, "seeded", "results.json")
    results = json.load(open(resf)) if os.path.exists(resf) else {}
    with cf.ThreadPoolExecutor(max_workers=j) as ex:
        futs = {ex.submit(run_one, p, n): (p, n) for p, n in jobs}
        for f in cf.as_completed(futs):
            try: r = f.result()
            except Exception as e: r = {"property": futs[f][0], "name": futs[f][1], "checks": {}, "error": str(e)[:200]}
            results["%s/%s" % (r["property"], r["name"])] = r
            print(json.dumps(r)[:400]); sys.stdout.flush()
            json.dump(results, open(resf, "w"), indent=1)
    lines = ["# Seeded changes and what catches them", "",
             "Each row: a change to d-michail/parmcb produced by an independent sub-agent that saw only the property text; it compiles, the",
             "repository's own test-suite still passes with it, and the agent's demonstration fails with it and passes without it (all re-confirmed",
             "by `tools/confirm_seed.py`). `tools/seed_report.py` applied it in a scratch worktree and ran the property's quick check.", "",
             "| property | change | what it needs to manifest | check result | how |", "|---|---|---|---|---|"]
    for k in sorted(results):
        r = results[k]
        how = ("failing input found" if r.get("failing_input_found") else "correspondence / proof obligation only") if "DETECTED" in r.get("checks", {}).values() else "-"
        lines.append("| %s | %s: %s | %s | %s | %s |" % (r["property"], r["name"], r.get("summary", "").replace("|", "/")[:220], r.get("needs", "").replace("|", "/")[:200],
                                                   ", ".join("%s %s" % kv for kv in r.get("checks", {}).items()), how))
    open(os.path.join(ROOT, "seeded", "RESULTS.md"), "w").write("\n".join(lines) + "\n")


if __name__ == "__main__":
    main()
