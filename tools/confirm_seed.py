#!/usr/bin/env python3
"""confirm_seed.py — independent confirmation of seeded changes before they are kept under /verif/seeded:
   python3 tools/confirm_seed.py <property id> <dir with m1/ m2/ ... each holding patch.diff, demo.cpp|demo.sh, meta.json>
In ONE scratch worktree of /repo's HEAD: build + run the unedited test-suite on the clean tree, compile/run each demo on the
clean tree (must exit 0); then per mutant: apply, rebuild, run the suite (must pass), run the demo (must exit non-zero), revert.
Confirmed mutants are copied to /verif/seeded/<id>/<name>/ with meta.json extended by what was run. The worktree is removed."""
import json, os, shutil, subprocess, sys, time

ROOT = os.path.dirname(os.path.dirname(os.path.abspath(__file__)))


def sh(cmd, cwd, timeout=1800):
    try:
        p = subprocess.run(cmd, shell=True, cwd=cwd, capture_output=True, text=True, timeout=timeout)
        return p.returncode, (p.stdout + p.stderr)[-3000:]
    except subprocess.TimeoutExpired:
        return 124, "TIMEOUT"


def suite(wt):
    rc, out = sh("cmake --build _build -j16 2>&1 | tail -3 && ctest --test-dir _build -j8 --timeout 900 2>&1 | tail -4", wt)
    ok = rc == 0 and "100% tests passed" in out
    return ok, out


def demo(wt, d, meta):
    cmd = meta.get("demo_cmd", "")
    # the demo lives in <src>/mX/; make it reachable as out/mX/ relative to the worktree, as the seeding agents wrote their commands
    rc, out = sh(cmd, wt, timeout=900)
    return rc, out


def main():
    pid, src = sys.argv[1], os.path.abspath(sys.argv[2])
    prefix = sys.argv[3] if len(sys.argv) > 3 else ""          # name prefix for a later seeding round (e.g. r2)
    wt = "/tmp/confirm_%s_%d" % (pid, os.getpid())
    subprocess.run(["git", "-C", "/repo", "worktree", "add", "--detach", "-f", wt, "HEAD"], check=True, capture_output=True)
    results = []
    try:
        os.makedirs(wt + "/out", exist_ok=True)
        names = sorted(n for n in os.listdir(src) if os.path.exists(os.path.join(src, n, "patch.diff")))
        for n in names:
            shutil.copytree(os.path.join(src, n), os.path.join(wt, "out", n))
        rc, out = sh("cmake -G Ninja -B _build -DCMAKE_BUILD_TYPE=Release > /dev/null", wt)
        ok, out = suite(wt)
        if not ok:
            print("clean tree: suite does not pass?!", out); return 2
        for n in names:
            meta = json.load(open(os.path.join(src, n, "meta.json")))
            r = {"name": n, "summary": meta.get("summary", "")}
            rc0, o0 = demo(wt, n, meta)
            r["demo_clean_exit"] = rc0
            pa = subprocess.run(["git", "-C", wt, "apply", os.path.join(src, n, "patch.diff")], capture_output=True, text=True)
            if pa.returncode != 0:
                r["error"] = "patch does not apply: " + pa.stderr[-300:]; results.append(r); continue
            ok, so = suite(wt)
            r["suite_passes_with_patch"] = ok
            rc1, o1 = demo(wt, n, meta)
            r["demo_patched_exit"] = rc1; r["demo_patched_output_tail"] = o1[-400:]
            subprocess.run("git checkout -- include src test 2>/dev/null; git checkout -- .", shell=True, cwd=wt, capture_output=True)
            r["confirmed"] = bool(rc0 == 0 and ok and rc1 not in (0, 124))
            results.append(r)
            if r["confirmed"]:
                dst = os.path.join(ROOT, "seeded", pid, prefix + n)
                os.makedirs(dst, exist_ok=True)
                for f in os.listdir(os.path.join(src, n)):
                    if f.startswith("demo") and not f.endswith((".cpp", ".sh", ".py", ".txt", ".dimacs")): continue   # skip binaries
                    if os.path.isfile(os.path.join(src, n, f)) and os.path.getsize(os.path.join(src, n, f)) < 200000:
                        shutil.copy(os.path.join(src, n, f), dst)
                meta["confirmed_by_integrator"] = {"at": time.strftime("%Y-%m-%d %H:%M:%S"), "repo_head": subprocess.run("git -C /repo log --format=%h -1", shell=True, capture_output=True, text=True).stdout.strip(),
                                                   "ran": ["clean tree: cmake build + ctest (all pass), demo exit 0",
                                                           "patched tree: cmake build + ctest (all pass), demo exit %d" % rc1]}
                json.dump(meta, open(os.path.join(dst, "meta.json"), "w"), indent=1)
            print(json.dumps(r)[:600]); sys.stdout.flush()
    finally:
        subprocess.run(["git", "-C", "/repo", "worktree", "remove", "--force", wt], capture_output=True)
        shutil.rmtree(wt, ignore_errors=True)
    return 0


if __name__ == "__main__":
    sys.exit(main())
