#!/usr/bin/env python3
"""trees_common.py — correspondence of the tree-based exact entry points mcb_sva_fvs_trees / mcb_sva_iso_trees (sequential lookup,
parmcb_sva_trees.hpp + sptrees.hpp) with the ACCEPTANCE model coq/theories/TreesModel.v (extraction group "trees").

std::sort leaves the order of equal-weight candidates unspecified, so a run cannot be predicted; instead the cycles the implementation
emitted are replayed through the model: in phase k the k-th emitted cycle must be the answer of CandidateCycleBuilder for some candidate
of the model's collection that is odd w.r.t. the model's k-th witness and has minimum recorded weight among the answering candidates
(TreesModel.trees_phase_pick); supports are updated as in the code; the accumulated weight must equal the returned value.  The oracles
are recovered from the run: BFS root order of the ForestIndex (printed by harness/c01.cpp) and, for the FVS variant, the feedback vertex
set (greedy_fvs on the same graph through harness/c13.cpp = pick oracle of FvsModel).  A rejected run is first judged against the
property text with the independent oracle (mcb_oracle.judge_basis / judge_weight): failing input found vs correspondence-only.
Additionally the deterministic resolution TreesModel.mcb_sva_trees_first_Z (first minimal answering candidate in collection order) is
run on the smaller cases: it must produce a minimum cycle basis of the same total weight (independent judge), and its own output must be
accepted by the acceptance model.

EXACT tie (cycle by cycle).  The one source of nondeterminism, the arrangement std::sort leaves among equal recorded weights, is
recovered deterministically: harness/c01.cpp re-runs the same builder and the same std::sort call on the same graph object (before and
after the entry point; both recoveries must agree) and prints the sources of the builder's trees (FVS = the feedback vertex set
actually used) and the arrangement as positions of the builder's emission order (ORD).  Every `A fvs|iso` run within the size limits is
then compared EXACTLY with the extracted as-executed model TreesFloatModel.mcb_sva_trees_go_Z (builder with the std::map default,
ts_arrange validating ORD, first answering candidate of the arranged scan, the loop that goes on): the same number of phases, every
cycle in emission order (as an edge set), every phase found, the model's per-phase weight = the weight of the emitted cycle (the
per-phase weight of the code is not observable from outside; the sum is: the returned value), the returned value; and the model
mcb_sva_trees_order the theorems of Properties_C01_trees_exact.v are stated about makes the same run (ORDER same).  A disagreement
is judged against the property text first (failing input found vs correspondence-only).  The acceptance replay and the judging stay.

Exact domain only: integer-valued weights (double weights w * 2^scale are exact).  The isometric variant on inexact doubles is known
finding D9 and out of scope here.

Use:   run_trees(c, tier, what, lines=None, io=None)   from tools/exact_common.py's flow (c = lib.Check; lines/io = the `A <alg> ...` cases
       and the answers of harness c01 if already computed), or standalone:   python3 tools/trees_common.py --tier quick [--seed N]
"""
import json, os, sys
sys.path.insert(0, os.path.dirname(os.path.abspath(__file__)))
import lib, gen, mcb_oracle as O

LIBS = ["-ltbb", "-lboost_timer"]
GROUP = "trees"
KEYS = ["ROOTS", "EORD", "RET", "N", "CYC", "FVS", "ORD"]
COMP = {"fvs": "fvsaccept", "iso": "isoaccept"}
CORR = "correspondence trees/%s: TreesModel.mcb_sva_trees_replay_Z (acceptance) vs harness/c01.cpp"
CORRX = ("correspondence trees/%s exact: TreesFloatModel.mcb_sva_trees_go_Z (run as executed under the recovered std::sort arrangement; "
         "theorems Properties_C01_trees_exact.C01_trees_order_accepted / C01_trees_go_is_order) vs harness/c01.cpp")


def limits(tier):
    """(max n, max m, max N*m) of the runs replayed through the acceptance model; (max n, max m) for the deterministic resolution"""
    return ((26, 100, 6000), (14, 34)) if tier == "quick" else ((50, 320, 40000), (18, 50))


def graph_of(line):
    t = line.split()
    n, es, _ = lib.parse_graph_tokens(t, 4)
    return t[1], n, es


def fvs_picks(exe13, graphs):
    """greedy_fvs of the real code on the given graphs (token strings) -> list of pick lists (None on failure)"""
    outs = lib.run_lines([exe13], graphs)
    return [o.split()[1:] if o.startswith("OK") else None for o in outs]


def model_line(gt, roots, picks, cycles):
    return "%s %d %s %d %s %d %s" % (gt, len(roots), " ".join(roots), len(picks), " ".join(picks), len(cycles),
                                     " ".join("%d %s" % (len(cy), " ".join(map(str, sorted(cy)))) for cy in cycles))


def first_line(alg, gt, roots, picks):
    return "%s %s %d %s %d %s" % (alg, gt, len(roots), " ".join(roots), len(picks), " ".join(picks))


def run_line(alg, gt, roots, picks, order):
    """case of the model entry `run` (the run as executed): alg graph roots picks order"""
    return "%s %s %d %s %d %s %d %s" % (alg, gt, len(roots), " ".join(roots), len(picks), " ".join(picks), len(order), " ".join(order))


def parse_run(mline):
    """'RET t N k CYC (len ids)*k W w*k FND b*k SG (len ids)*k ORDER same|differs' -> (total, cycles, weights, found, order_same) or None"""
    t = mline.split()
    if not t or t[0] != "RET" or "W" not in t or "FND" not in t or "ORDER" not in t: return None
    try:
        ret, cycles = O.parse_alg_output(" ".join(t[:t.index("W")]))
        k = len(cycles)
        iw = t.index("W"); ws = [int(x) for x in t[iw + 1:iw + 1 + k]]
        ifd = t.index("FND"); fnd = t[ifd + 1:ifd + 1 + k]
        if len(ws) != k or len(fnd) != k or not isinstance(ret, int): return None
        return ret, cycles, ws, [x == "1" for x in fnd], t[t.index("ORDER") + 1] == "same"
    except Exception:
        return None


def exact_diff(es, ret, cycles, m):
    """None when the implementation's run (returned value, cycles in emission order) IS the model's run `m`; else what differs"""
    pm = parse_run(m)
    if pm is None:
        return "the as-executed model does not complete: %s" % m[:80]
    mret, mcycles, mws, mfnd, same = pm
    if len(mcycles) != len(cycles):
        return "%d cycles emitted, the model's run has %d phases" % (len(cycles), len(mcycles))
    for k, (a, b) in enumerate(zip(cycles, mcycles)):
        if sorted(a) != sorted(b) or len(set(a)) != len(a):
            return "phase %d: emitted cycle {%s}, the model's first answering candidate gives {%s}" % (k, " ".join(map(str, sorted(a))), " ".join(map(str, sorted(b))))
        if not mfnd[k]:
            return "phase %d: the model's lookup comes up empty" % k
        if mws[k] != sum(es[e][2] for e in a):
            return "phase %d: the model's weight %d is not the weight of the emitted cycle" % (k, mws[k])
    if mret != ret:
        return "returned value %s, the model accumulates %s" % (ret, mret)
    if not same:
        return "mcb_sva_trees_order (the model the theorems are about) does not make the run of mcb_sva_trees_go_Z"
    return None


def judge(what, n, es, cycles, ret, opt=None):
    if what == "basis":
        return O.judge_basis(n, es, cycles)
    if not isinstance(ret, int):
        return "returned value %s is not an exact integer multiple of the weight unit" % ret
    return O.judge_weight(n, es, cycles, ret, opt)


def own_cases(rng, tier):
    """`A fvs|iso ...` cases of tools/exact_common.py's generator (the `signed` ones are dropped) plus tie-heavy families"""
    import exact_common
    cases = [cs for cs in exact_common.alg_cases(rng, tier) if cs[0].split()[1] in COMP]
    extra = 150 if tier == "quick" else 1200
    maxn = 12 if tier == "quick" else 22
    for i in range(extra):
        r = rng.random()
        if r < 0.25: g = gen.grid(rng.randint(2, 4), rng.randint(2, max(2, maxn // 4)))
        elif r < 0.4: g = gen.hypercube(rng.randint(2, 3 if tier == "quick" else 4))
        elif r < 0.55: g = gen.complete(rng.randint(4, 7))
        elif r < 0.7: g = gen.wheel(rng.randint(4, 9))
        elif r < 0.8: g = gen.petersen()
        else: g = gen.bipartite(rng.randint(2, 4), rng.randint(2, 5))
        if rng.random() < 0.7: g = gen.relabel(rng, g[0], g[1])
        g, style = gen.weigh(rng, g, rng.choice(["unit", "unit", "ties", "ties", "wide"]))
        for alg in COMP:
            ty = "I" if i % 2 == 0 else "D"
            scale = 0 if ty == "I" else rng.choice([0, -3, 5])
            cases.append(("A %s %s %d %s" % (alg, ty, scale, gen.graph_tokens(g)), g, style))
    return cases


def run_trees(c, tier, what="basis", lines=None, io=None, orig=None, label="trees"):
    """Replays every fvs/iso run of `lines` (generated here when None) through the acceptance model; violations go to the Check `c`.
    Returns a dict with counts (also stored in c.extra["trees"])."""
    stats = {"replayed": 0, "accepted": 0, "rejected": 0, "skipped_size": 0, "first_runs": 0, "first_reaccepted": 0,
             "exact_runs": 0, "exact_equal": 0}
    c.extra["trees"] = stats
    if not c.step_model(GROUP):
        return stats
    exe = c.harness(name="c01", srcs=["c01.cpp"], libs=LIBS)
    exe13 = c.harness(name="c13", srcs=["c13.cpp"])
    if not (exe and exe13):
        return stats
    counted = lines is not None            # the caller already counted these cases
    if lines is None:
        cs = [l for l in lib.corpus_cases(c.pid) if l.startswith("A ") and l.split()[1] in COMP]
        for extra_pid in ("C01", "C02"):
            if extra_pid != c.pid:
                cs += [l for l in lib.corpus_cases(extra_pid) if l.startswith("A ") and l.split()[1] in COMP]
        cs = list(dict.fromkeys(cs))
        stats["corpus_cases"] = len(cs)
        lines = cs + [x[0] for x in own_cases(c.rng, tier)]
        io = None
    if io is None:
        io = lib.run_lines([exe], lines)
    (maxn, maxm, maxwork), (fn, fm) = limits(tier)
    sel = []
    for i, l in enumerate(lines):
        t = l.split()
        if t[0] != "A" or t[1] not in COMP: continue
        alg, n, es = graph_of(l)
        if not counted:
            N = len(es) - n + O.components(n, es)
            c.count(l, N >= 2, bucket="trees %s %s N%s" % (alg, t[2], "0" if N == 0 else "1" if N == 1 else "2-5" if N <= 5 else "6-15" if N <= 15 else ">15"))
        if " RET " not in " " + io[i]:
            if not counted:
                c.violation("%s_trees on a valid input did not return: %s" % (alg, io[i][:200]), {"component": "trees", "case": l, "impl": io[i]}, True)
            continue
        N = len(es) - n + O.components(n, es)
        if n > maxn or len(es) > maxm or N * len(es) > maxwork:
            stats["skipped_size"] += 1; continue
        sel.append(i)
    # ---- oracles ---------------------------------------------------------------------------------
    gts = {i: " ".join(lines[i].split()[4:]) for i in sel}
    fv_idx = [i for i in sel if lines[i].split()[1] == "fvs"]
    pk = dict(zip(fv_idx, fvs_picks(exe13, [gts[i] for i in fv_idx])))
    parsed, mlines, order = {}, {"fvs": [], "iso": []}, {"fvs": [], "iso": []}
    nviol = {}
    def report(kind, i, why, found, extra=None):
        if nviol.get(kind, 0) >= 3: return
        nviol[kind] = nviol.get(kind, 0) + 1
        rep = {"component": "trees", "case": lines[i], "impl": io[i]}
        if orig is not None:            # the run came from another harness (e.g. a *_tbb entry point under a schedule): keep its case
            rep["orig_case"] = orig[i]; why = "%s [%s]" % (why, label)
        rep.update(extra or {})
        c.violation(why, rep, found)
    for i in sel:
        alg, n, es = graph_of(lines[i])
        try:
            ret, cycles = O.parse_alg_output(io[i])
        except Exception:
            report("crash", i, "unparsable answer of %s_trees: %s" % (alg, io[i][:200]), True); continue
        f = lib.fields(io[i], KEYS)
        roots = f.get("ROOTS", [])
        picks = pk.get(i) if alg == "fvs" else []
        if picks is None:
            report("fvs", i, "greedy_fvs (harness c13) failed on the graph of this case", True); continue
        bad_ids = any(not isinstance(x, int) for cy in cycles for x in cy)
        parsed[i] = (alg, n, es, ret, cycles, roots, picks)
        if bad_ids:
            why = judge(what, n, es, cycles, ret) or "an emitted cycle contains an edge that is not an edge of the input graph"
            report("judge", i, "%s_trees: %s" % (alg, why), True); continue
        mlines[alg].append(model_line(gts[i], roots, picks, cycles)); order[alg].append(i)
    # ---- acceptance --------------------------------------------------------------------------------
    opts = {}
    def opt_of(i):
        k = gts[i]
        if k not in opts: opts[k] = O.mcb(parsed[i][1], parsed[i][2])
        return opts[k]
    whys = {}
    for alg in ("fvs", "iso"):
        mo = lib.run_model(COMP[alg], mlines[alg], group=GROUP, timeout=1500)
        for i, ml, m in zip(order[alg], mlines[alg], mo):
            _, n, es, ret, cycles, roots, picks = parsed[i]
            stats["replayed"] += 1
            why = judge(what, n, es, cycles, ret, opt_of(i) if what != "basis" else None)
            whys[i] = why
            t = m.split()
            if t and t[0] == "ACCEPT":
                stats["accepted"] += 1
                if why:      # accepted by the model although the answer violates the property text: model or theorem is wrong
                    report("judge", i, "%s_trees: %s (the acceptance model accepted this run)" % (alg, why), True, {"model": m, "model_case": ml})
                elif str(ret) != t[1]:
                    # only reachable when the property text judged above does not mention the returned value (what == "basis")
                    report("corr", i, "correspondence trees/%s: the weight accumulated by the replayed run (%s) differs from the returned value %s; the emitted family still satisfies the property text" % (alg, t[1], ret),
                           False, {"model": m, "model_case": ml, "theorem_or_correspondence": CORR % alg})
                continue
            stats["rejected"] += 1
            if why:
                report("judge", i, "%s_trees: %s (acceptance model: %s)" % (alg, why, m[:80]), True, {"model": m, "model_case": ml})
            else:
                report("corr", i, "correspondence trees/%s (acceptance replay of the emitted cycles: %s) no longer checks; the implementation's answer still satisfies the property text" % (alg, m[:80]),
                       False, {"model": m, "model_case": ml, "theorem_or_correspondence": CORR % alg})
    # ---- exact tie: the run as executed under the recovered std::sort arrangement, cycle by cycle -----------------------------
    xl, xo = [], []
    for alg in ("fvs", "iso"):
        for i in order[alg]:
            f = lib.fields(io[i], KEYS)
            if orig is not None or "ORD" not in f or "FVS" not in f: continue      # a run taken from another harness (no recovered arrangement; not the sequential scan)
            _, n, es, ret, cycles, roots, picks = parsed[i]
            fvs = f["FVS"]
            if alg == "fvs" and fvs != picks:
                report("corr", i, "correspondence trees/fvs exact: the sources of the builder's trees (%s) are not the feedback vertex set greedy_fvs "
                       "returns on the same graph through harness c13 (%s)" % (" ".join(fvs), " ".join(picks)), False,
                       {"theorem_or_correspondence": CORRX % alg})
                continue
            xl.append(run_line(alg, gts[i], roots, fvs if alg == "fvs" else [], f["ORD"])); xo.append(i)
    xres = lib.run_model("run", xl, group=GROUP, timeout=1500)
    for i, l, m in zip(xo, xl, xres):
        alg, n, es, ret, cycles, roots, picks = parsed[i]
        stats["exact_runs"] += 1
        d = exact_diff(es, ret, cycles, m)
        if d is None:
            stats["exact_equal"] += 1; continue
        why = whys.get(i)
        if why:
            report("judge", i, "%s_trees: %s (exact tie: %s)" % (alg, why, d), True, {"model_exact": m, "model_exact_case": l})
        else:
            report("corr-exact", i, "correspondence trees/%s exact (run as executed under the recovered std::sort arrangement) no longer checks: %s; "
                   "the implementation's answer still satisfies the property text" % (alg, d), False,
                   {"model_exact": m, "model_exact_case": l, "theorem_or_correspondence": CORRX % alg})
    # ---- deterministic resolution (model-side test; also ties the model's collection to the code's through the total weight) ------
    fl, fo = [], []
    for alg in ("fvs", "iso"):
        for i in order[alg]:
            _, n, es, ret, cycles, roots, picks = parsed[i]
            if n <= fn and len(es) <= fm and orig is None:      # (the model-side self-test is not repeated for runs taken from another harness)
                fl.append(first_line(alg, gts[i], roots, picks)); fo.append(i)
    fres = lib.run_model("first", fl, group=GROUP, timeout=1500)
    re_lines, re_idx = {"fvs": [], "iso": []}, {"fvs": [], "iso": []}
    for i, l, r in zip(fo, fl, fres):
        alg, n, es, ret, cycles, roots, picks = parsed[i]
        stats["first_runs"] += 1
        try:
            mret, mcycles = O.parse_alg_output(r)
            bad = O.judge_weight(n, es, mcycles, mret, opt_of(i)) or O.judge_basis(n, es, mcycles)
        except Exception:
            bad = "no answer: " + r[:100]
        if bad:
            report("first", i, "model self-test trees/%s: the deterministic resolution mcb_sva_trees_first_Z does not return a minimum cycle basis (%s)" % (alg, bad), False,
                   {"model": r, "model_case": l, "theorem_or_correspondence": "TreesModel.mcb_sva_trees_first_Z / theorem TreesProofs3.trees_first_total_modulo_sufficiency (C02_fvs_trees)"})
            continue
        re_lines[alg].append(model_line(gts[i], roots, picks, mcycles)); re_idx[alg].append(i)
    for alg in ("fvs", "iso"):
        mo = lib.run_model(COMP[alg], re_lines[alg], group=GROUP, timeout=1500)
        for i, ml, m in zip(re_idx[alg], re_lines[alg], mo):
            if m.startswith("ACCEPT"): stats["first_reaccepted"] += 1
            else:
                report("first", i, "model self-test trees/%s: the acceptance model rejects the run of its own deterministic resolution (%s)" % (alg, m[:80]), False,
                       {"model": m, "model_case": ml, "theorem_or_correspondence": "theorem TreesProofs3.trees_first_total_modulo_sufficiency (the run of the deterministic resolution is accepted)"})
    return stats


def replay_case(pid, r, what):
    """replay of a violation recorded by run_trees (component == "trees"); returns 0/1 like the other replays"""
    lib.ensure_model(GROUP)
    exe, err = lib.build_cpp(name="c01", srcs=["c01.cpp"], libs=LIBS)
    exe13, err13 = lib.build_cpp(name="c13", srcs=["c13.cpp"])
    line = r["case"]
    o = lib.run_lines([exe], [line], par=1)[0]
    print("case:", line); print("impl:", o)
    alg, n, es = graph_of(line)
    bad = None
    try:
        ret, cycles = O.parse_alg_output(o)
        bad = judge(what, n, es, cycles, ret)
    except Exception:
        bad = "no answer: %s" % o[:100]
    if not bad:
        gt = " ".join(line.split()[4:])
        picks = fvs_picks(exe13, [gt])[0] if alg == "fvs" else []
        f = lib.fields(o, KEYS)
        m = lib.run_model(COMP[alg], [model_line(gt, f.get("ROOTS", []), picks or [], cycles)], par=1, group=GROUP)[0]
        print("model:", m)
        if not m.startswith("ACCEPT") or (what != "basis" and isinstance(ret, int) and int(m.split()[1]) != ret):
            bad = "run not accepted by the acceptance model"
        if not bad and "ORD" in f and "FVS" in f:
            if alg == "fvs" and f["FVS"] != (picks or []):
                bad = "the sources of the builder's trees are not the feedback vertex set of harness c13"
            else:
                xm = lib.run_model("run", [run_line(alg, gt, f.get("ROOTS", []), f["FVS"] if alg == "fvs" else [], f["ORD"])], par=1, group=GROUP)[0]
                print("model (as executed):", xm)
                d = exact_diff(es, ret, cycles, xm)
                if d: bad = "exact tie: " + d
    print("judge:", bad)
    if bad:
        print("VIOLATION property=%s replay=%s" % (pid, r.get("_path", "?"))); return 1
    return 0


def main():
    import argparse, time
    ap = argparse.ArgumentParser()
    ap.add_argument("--tier", default="quick", choices=["quick", "thorough"])
    ap.add_argument("--seed", type=int, default=1)
    ap.add_argument("--what", default="weight", choices=["basis", "weight"])
    a = ap.parse_args()
    t0 = time.time()
    c = lib.Check("TREES", a.tier, a.seed, [])       # standalone: no evidence file is written (finish() is not called)
    stats = run_trees(c, a.tier, a.what)
    for v in c.violations:
        print("DETAIL TREES: %s" % v["what"][:500])
        print("VIOLATION property=TREES replay=%s%s" % (v["replay"], "" if v["found"] else " no-failing-input-found"))
    print("TREES %s (%s): %d evaluations, %d distinct non-trivial, %s, %d violation(s), %.1fs" %
          (a.tier, a.what, c.evaluations, len(c.nontrivial), json.dumps(stats), len(c.violations), time.time() - t0))
    return 1 if c.violations else 0


if __name__ == "__main__":
    sys.exit(main())
