"""demo_build.py — builds the four command-line programs of /repo (src/*.cpp) from the WORKING TREE (VERIF_REPO, default
/repo) with -DPARMCB_VERIF into VERIF_BUILD (default /verif/build), cached on the content hash of every file under
include/ and src/, the stand-in config header and the command line.  Used by tools/props/c11.py.

Libraries as in /repo/CMakeLists.txt: Boost::timer Boost::program_options Boost::thread + TBB for the three sequential
demos; mcb-dimacs-mpi additionally Boost::mpi (+ boost_serialization) and is compiled with mpicxx.  parmcb/config.hpp is the
stand-in harness/cfg/parmcb/config.hpp (PARMCB_HAVE_BOOST, PARMCB_HAVE_TBB, PARMCB_INVARIANTS_CHECK; PARMCB_HAVE_MPI under
-DVERIF_WITH_MPI) — the same switches cmake generates on this machine."""
import glob, os, shutil, concurrent.futures as cf
import lib

DEMOS = {"mcb": "mcb-dimacs", "approx": "approx-mcb-dimacs", "stats": "collection-stats-dimacs", "mpi": "mcb-dimacs-mpi"}
OPT = "-O1"


def demo_cmd(prog, src=None, exe=None, extra=None):
    nm = DEMOS[prog]
    mpi = prog == "mpi"
    cxx = "mpicxx" if mpi else "g++"
    src = src or os.path.join(lib.REPO, "src", nm + ".cpp")
    exe = exe or os.path.join(lib.BUILD, "c11_demo_" + prog)
    cmd = [cxx, "-std=c++14", OPT, "-DNDEBUG", "-D" + lib.GUARD] + (["-DVERIF_WITH_MPI"] if mpi else []) + list(extra or []) + \
          ["-I" + os.path.join(lib.ROOT, "harness", "cfg"), "-I" + os.path.join(lib.REPO, "include"), "-o", exe, src,
           "-lboost_program_options", "-lboost_timer", "-lboost_thread"] + \
          (["-lboost_mpi", "-lboost_serialization"] if mpi else []) + ["-ltbb", "-lpthread"]
    return cmd, exe, src


def build_demo(prog, extra=None, timeout=900):
    """-> (exe, None) or (None, error text)"""
    os.makedirs(lib.BUILD, exist_ok=True)
    cmd, exe, src = demo_cmd(prog, extra=extra)
    if shutil.which(cmd[0]) is None:
        return None, cmd[0] + " not available"
    if not os.path.exists(src):
        return None, src + " does not exist"
    key = lib.sha(lib.file_hash(lib.repo_sources() + glob.glob(os.path.join(lib.ROOT, "harness", "cfg", "parmcb", "*"))), " ".join(cmd))
    stamp = exe + ".stamp"
    if os.path.exists(exe) and os.path.exists(stamp) and open(stamp).read() == key:
        return exe, None
    if os.path.exists(exe):
        os.remove(exe)
    rc, so, se = lib.sh(cmd, timeout=timeout)
    if rc != 0 or not os.path.exists(exe):
        return None, (so + se)[-3000:]
    open(stamp, "w").write(key)
    return exe, None


def build_all(progs=("mcb", "approx", "stats", "mpi")):
    """build in parallel; -> {prog: (exe, err)}"""
    with cf.ThreadPoolExecutor(max_workers=len(progs)) as ex:
        futs = {p: ex.submit(build_demo, p) for p in progs}
        return {p: f.result() for p, f in futs.items()}


if __name__ == "__main__":
    import sys, time
    t0 = time.time()
    for p, (exe, err) in build_all().items():
        print(p, exe if exe else "FAILED:\n" + err)
    print("%.1fs" % (time.time() - t0))
    sys.exit(0)
