"""gen.py — graph generators shared by the checks. A graph is (n, [(u, v, w), ...]) with integer weights;
edge id = position in the list = insertion order in the harness. All randomness comes from the rng passed in."""
import itertools


def relabel(rng, n, edges, shuffle_edges=True, flip=True):
    perm = list(range(n)); rng.shuffle(perm)
    es = [(perm[u], perm[v], w) for (u, v, w) in edges]
    if flip:
        es = [(v, u, w) if rng.random() < 0.5 else (u, v, w) for (u, v, w) in es]
    if shuffle_edges:
        rng.shuffle(es)
    return n, es


def complete(n): return n, [(i, j, 1) for i in range(n) for j in range(i + 1, n)]
def bipartite(a, b): return a + b, [(i, a + j, 1) for i in range(a) for j in range(b)]
def cycle(n): return n, [(i, (i + 1) % n, 1) for i in range(n)] if n >= 3 else []
def path(n): return n, [(i, i + 1, 1) for i in range(n - 1)]
def star(n): return n, [(0, i, 1) for i in range(1, n)]
def wheel(n): return n, [(0, i, 1) for i in range(1, n)] + [(i, i % (n - 1) + 1, 1) for i in range(1, n)] if n >= 4 else complete(n)[1]


def grid(a, b):
    es = []
    for i in range(a):
        for j in range(b):
            if i + 1 < a: es.append((i * b + j, (i + 1) * b + j, 1))
            if j + 1 < b: es.append((i * b + j, i * b + j + 1, 1))
    return a * b, es


def hypercube(d):
    n = 1 << d
    return n, [(i, i ^ (1 << k), 1) for i in range(n) for k in range(d) if i < i ^ (1 << k)]


def theta(a, b, c):
    """two hubs joined by three internally disjoint paths with a, b, c inner vertices (at most one may be 0)"""
    n = 2; es = []
    for L in (a, b, c):
        prev = 0
        for _ in range(L):
            es.append((prev, n, 1)); prev = n; n += 1
        es.append((prev, 1, 1))
    # drop a duplicate direct edge if two lengths are 0
    seen = set(); out = []
    for (u, v, w) in es:
        k = (min(u, v), max(u, v))
        if k not in seen: seen.add(k); out.append((u, v, w))
    return n, out


def petersen():
    es = [(i, (i + 1) % 5, 1) for i in range(5)] + [(i, i + 5, 1) for i in range(5)] + [(5 + i, 5 + (i + 2) % 5, 1) for i in range(5)]
    return 10, es


def random_graph(rng, n, p):
    return n, [(i, j, 1) for i in range(n) for j in range(i + 1, n) if rng.random() < p]


def random_tree(rng, n):
    return n, [(rng.randrange(i), i, 1) for i in range(1, n)]


def disjoint_union(g1, g2):
    n1, e1 = g1; n2, e2 = g2
    return n1 + n2, list(e1) + [(u + n1, v + n1, w) for (u, v, w) in e2]


def add_pendant_trees(rng, g, k):
    n, es = g; es = list(es)
    for _ in range(k):
        if n == 0: n = 1; continue
        es.append((rng.randrange(n), n, 1)); n += 1
    return n, es


def add_isolated(g, k): return g[0] + k, list(g[1])


def lollipop(a, b):
    """K_a with a path of b vertices attached"""
    n, es = complete(a)
    prev = 0
    for _ in range(b):
        es.append((prev, n, 1)); prev = n; n += 1
    return n, es


def figure_eight(a, b):
    """two cycles of lengths a, b sharing vertex 0"""
    n, es = cycle(a)
    prev = 0
    for _ in range(b - 1):
        es.append((prev, n, 1)); prev = n; n += 1
    es.append((prev, 0, 1))
    return n, es


def structural(rng, maxn):
    """a simple unweighted graph from a family aimed at the proofs' case splits"""
    r = rng.random()
    m = max(6, maxn)
    rng_ = rng
    class _R:
        def randint(self, a, b): return a if b <= a else rng_.randint(a, b)
        def __getattr__(self, k): return getattr(rng_, k)
    rng = _R()
    if r < 0.04: g = (rng.choice([0, 0, 1, 2, 5]), [])                                  # empty / edgeless
    elif r < 0.10: g = random_tree(rng_, rng.randint(1, m))                               # forests
    elif r < 0.14: g = disjoint_union(random_tree(rng_, rng.randint(1, m // 2)), random_tree(rng_, rng.randint(1, m // 2)))
    elif r < 0.20: g = complete(rng.randint(3, min(7, m)))
    elif r < 0.26: a = rng.randint(1, min(4, m // 2)); b = rng.randint(2, max(2, min(5, m - a))); g = bipartite(a, b)
    elif r < 0.32: a = rng.randint(2, 4); b = rng.randint(2, max(2, min(5, m // a))); g = grid(a, b)
    elif r < 0.35: g = hypercube(rng.randint(2, 3 if m < 16 else 4))
    elif r < 0.40: g = wheel(rng.randint(4, min(9, m)))
    elif r < 0.46: g = theta(rng.randint(0, 3), rng.randint(1, 3), rng.randint(1, 4))
    elif r < 0.50: g = cycle(rng.randint(3, m))
    elif r < 0.53: g = petersen() if m >= 10 else cycle(5)
    elif r < 0.58: g = lollipop(rng.randint(3, 5), rng.randint(1, 4))
    elif r < 0.63: g = figure_eight(rng.randint(3, 5), rng.randint(3, 5))
    elif r < 0.80: n = rng.randint(2, m); g = random_graph(rng_, n, rng.choice([0.15, 0.25, 0.4]))
    elif r < 0.90: n = rng.randint(3, min(m, 9)); g = random_graph(rng_, n, rng.choice([0.6, 0.8]))
    else:
        g = disjoint_union(structural(rng_, max(3, m // 2)), structural(rng_, max(3, m // 2)))
    r2 = rng.random()
    if r2 < 0.15: g = add_pendant_trees(rng_, g, rng.randint(1, 4))
    if r2 > 0.88: g = add_isolated(g, rng.randint(1, 3))
    if g[0] > 0 and rng.random() < 0.85: g = relabel(rng_, g[0], g[1])
    return g


def weigh(rng, g, style=None):
    """assign positive integer weights; style: unit | ties | wide | pow2 (all subset sums distinct)"""
    n, es = g
    style = style or rng.choice(["unit", "ties", "ties", "wide", "wide", "pow2", "f32tie", "nearmax"])
    if style == "pow2" and len(es) > 40: style = "wide"
    if style == "unit": ws = [1] * len(es)
    elif style == "ties": ws = [rng.randint(1, 4) for _ in es]
    elif style == "wide": ws = [rng.randint(1, 1000) for _ in es]
    elif style == "nearmax":       # as heavy as the `int` instantiation allows: (m + 4) * sum(w) just below INT_MAX (the proved sufficient precondition, C07_overflow_*)
        m = max(1, len(es)); W = max(1, (2 ** 31 - 2) // ((m + 4) * m) - 1)
        ws = [rng.randint(max(1, W // 2), W) for _ in es]
    elif style == "f32tie":        # integers that are distinct as doubles/ints but collide in single precision (2^24 + small offsets)
        ws = [(1 << 24) + rng.randint(0, 6) for _ in es]
    else:
        ws = [1 << i for i in range(len(es))]; rng.shuffle(ws)
    return (n, [(u, v, w) for (u, v, _), w in zip(es, ws)]), style


def graph_tokens(g):
    n, es = g
    return "%d %d%s" % (n, len(es), "".join(" %d %d %d" % e for e in es))


def components(n, es):
    par = list(range(n))
    def find(x):
        while par[x] != x: par[x] = par[par[x]]; x = par[x]
        return x
    for e in es:
        a, b = find(e[0]), find(e[1])
        if a != b: par[a] = b
    return len({find(x) for x in range(n)})


def all_graphs(n):
    """all simple graphs on n labelled vertices (edge subsets)"""
    pairs = [(i, j) for i in range(n) for j in range(i + 1, n)]
    for mask in range(1 << len(pairs)):
        yield n, [(u, v, 1) for k, (u, v) in enumerate(pairs) if mask >> k & 1]


def int_domain_ok(g, approx_k=None):
    """graphs whose weights may be given to the library as `int`: every sum the algorithms can form must fit, i.e. (i) the intermediate path sums of
    the searches (at most a few times S = sum of all weights) and (ii) the returned TOTAL weight of the basis, which is a sum over m-n+c cycles each of
    weight <= S (for the approximate algorithms each dropped-edge cycle weighs <= S as well).  Sufficient: (m + 4) * S <= INT_MAX."""
    n, es = g
    S = sum(w for _, _, w in es)
    return (len(es) + 4) * S < 2 ** 31 - 1


# --------------------------------------------------------------------------------------------------------------------
# long single-thread call histories (state that survives between calls: stamps, cached buffers, counters)
# --------------------------------------------------------------------------------------------------------------------
def history_plan(ncalls):
    """-> (fresh, private): dicts call number (1-based) -> number of vertices.  `fresh`: at the call numbers where a narrow counter would wrap
    (2^8, 2^15, 2^16, 2*2^16 and their neighbours) the call runs on a graph LARGER than any before it (vertices never touched so far);
    `private`: calls 10..40 use private high vertex ranges that are touched again only exactly 2^8, 2^15 and 2^16 calls later (a stale mark of a
    stamp-based 'visited' optimisation would then equal the current stamp).  All other calls are meant to use tiny graphs (n <= ~12)."""
    wraps = [1 << 8, 1 << 15, 1 << 16, 2 << 16]
    fresh, big = {}, 40
    for w in wraps:
        for d in (-1, 0, 1, 2):
            if 1 <= w + d <= ncalls: big += 3; fresh[w + d] = big
    private = {}
    for s in range(10, 41):
        for w in [0] + wraps[:3]:
            if s + w <= ncalls: private[s + w] = 300 + 7 * s
    return fresh, private


def path_graph(n, w=1):
    return (n, [(i, i + 1, w) for i in range(n - 1)])


def private_graph(n, w=1):
    """touches only the vertices 0, n-3, n-2, n-1"""
    return (n, [(0, n - 3, w), (n - 3, n - 2, w), (n - 2, n - 1, w)])


def history_graphs(rng, ncalls, maxn=6):
    """one (unweighted) graph per call of a long single-thread history (see history_plan): tiny structural graphs, a cycle on fresh vertices at the
    wrap call numbers, a 4-cycle on a private vertex range at the private call numbers"""
    fresh, private = history_plan(ncalls)
    out = []
    for i in range(1, ncalls + 1):
        if i in fresh: n = fresh[i]; out.append((n, [(j, (j + 1) % n, 1) for j in range(n)]))
        elif i in private: n = private[i]; out.append((n, [(0, n - 3, 1), (n - 3, n - 2, 1), (n - 2, n - 1, 1), (n - 1, 0, 1)]))
        else: out.append(structural(rng, maxn))
    return out


# --------------------------------------------------------------------------------------------------------------------
# families aimed at the (2k-1) bound of the approximate algorithms (C06): inputs on which a non-shortest closing path or a
# too sparse spanner costs more than the factor allows
# --------------------------------------------------------------------------------------------------------------------
def petal_gadget(m, W):
    """two hubs x = 0 and v = 1 joined by one heavy edge W; m petals s_i: a light edge s_i-x, a light path s_i-a_i-b_i-v and an edge s_i-v of
    weight 2 (dropped by the spanner for k >= 2).  The closing path of s_i-v must use the light 3-hop path; a Dijkstra that keeps the FIRST
    discovered predecessor routes every closing path over the heavy edge (seeded change C06/m3 = r3m1)."""
    es = [(0, 1, W)]
    nxt = 2
    for _ in range(m):
        s, a, b = nxt, nxt + 1, nxt + 2; nxt += 3
        es += [(s, 0, 1), (s, a, 1), (a, b, 1), (b, 1, 1), (s, 1, 2)]
    return (nxt, es)


def path_with_chords(n, spans, wp=10, wc=11):
    """a path 0..n-1 (weight wp) plus all chords of the given spans (weight wc): the optimum uses short cycles through the chords, a spanner
    that is too sparse closes every chord along the path (seeded change C06/r3m2: hop limit 2^k-1 instead of 2k-1, visible for k >= 5)."""
    es = [(i, i + 1, wp) for i in range(n - 1)]
    for sp in spans:
        es += [(i, i + sp, wc) for i in range(n - sp)]
    return (n, es)


def big_graphs(rng, fan=False):
    """a few graphs beyond the range of narrow index types (n > 2^8, n > 2^16), judged against the property text only (too large for the
    extracted list-based models): a long cycle with a few chords and pendant paths, randomly relabelled"""
    out = []
    for n in (300, 66000):
        es = [(i, (i + 1) % (n - 10), 1) for i in range(n - 10)]                     # one long cycle on the first n-10 vertices
        es += [(i * 7 % (n - 10), (i * 7 + n // 3) % (n - 10), 1) for i in range(5)]   # five chords
        es += [(n - 10 + i, n - 9 + i, 1) for i in range(8)]                           # a pendant path component; vertex n-1 isolated
        es = list({(min(u, v), max(u, v)): (u, v, w) for (u, v, w) in es if u != v}.values())
        perm = list(range(n)); rng.shuffle(perm)
        es = [(perm[u], perm[v], w) for (u, v, w) in es]; rng.shuffle(es)
        out.append((n, es))
    # a fan: hub 0 joined to all of 1..d, and the path 1-2-...-d; hub degree d = 65537 (beyond 16-bit degree counters)
    if fan:
        d = 65537
        es = [(0, i, 1) for i in range(1, d + 1)] + [(i, i + 1, 1) for i in range(1, d)]
        rng.shuffle(es)
        out.append((d + 1, es))
    return out


def random_connected_sparse(rng, n, extra):
    """a random spanning tree on n vertices plus `extra` random further edges (cycle space dimension <= extra), unit weights"""
    perm = list(range(n)); rng.shuffle(perm)
    es = set()
    for i in range(1, n):
        j = rng.randrange(i); a, b = perm[i], perm[j]; es.add((min(a, b), max(a, b)))
    tries = 0
    while extra > 0 and tries < 200:
        tries += 1
        a, b = rng.randrange(n), rng.randrange(n)
        if a == b or (min(a, b), max(a, b)) in es: continue
        es.add((min(a, b), max(a, b))); extra -= 1
    el = [(u, v, 1) for (u, v) in es]; rng.shuffle(el)
    el = [(v, u, w) if rng.random() < 0.5 else (u, v, w) for (u, v, w) in el]
    return (n, el)
