// c04.cpp — the five MPI entry points on the real code, under a real MPI runtime (run with mpiexec -n P).
//   usage: c04 <case file> <out prefix> [tbb threads, default 1]
// Every rank reads the same case file; one case per line:
//   <alg> <D|I|L> <scale> <pseed> <graph>    alg = signed | fvs | fvs_tbb | iso | iso_tbb; D = double weights w*2^scale, I = int weights,
//                                            L = long long weights (64-bit integers, values above 2^53 included)
//   G <alg> <D|I|L> <scale> <pseed> <graph>  the same without the ROOTS / EORD oracles (graphs with tens of thousands of vertices, judged
//                                            against the property text only; EORD costs O(m^2) here)
//   T <k>                                    self-test of the reduction order of boost::mpi::reduce (see below)
// Rank r appends exactly one line per case to <out prefix>.<r>:
//   ROOTS .. EORD .. [RET w N k CYC ..] RANK r EMITTED <count> DONE
// (RET/N/CYC = what the entry point returned / emitted ON THAT RANK; the property wants cycles on rank 0 only.)
// pseed != 0: before the graph is built the rank performs a (pseed, rank)-dependent pattern of allocations and frees in
// the size classes of the edge-list nodes, so that the addresses of the edge properties — hence the order of
// std::set<edge_descriptor> — differ between ranks.  The order actually obtained is what EORD reports.
// All cases of one file run in ONE MPI job (amortises start-up; heaps also drift apart naturally from case to case).
// Per-rank trace of the tree variants: the rank's stderr (fd 2) is redirected to <out prefix>.err.<r>; before every case the rank
// writes "VERIF-CASE <index>" there, and the library's hook (pending/c04-hook-localmin.patch, guarded by PARMCB_VERIF, switched on
// by PARMCB_VERIF_MPI_TRACE in the environment — set here) adds "VERIF-MPITREES CHUNK|SORTED|LOCAL ..." lines: the chunk the rank
// received, its candidate vector after the sort, and its local minimum in every phase.  Without the hook only the markers appear.
#include "../mcb_common.hpp"
#include <fstream>
#include <cstdlib>
#include <fcntl.h>
#include <unistd.h>
#include <boost/mpi/environment.hpp>
#include <boost/mpi/communicator.hpp>
#include <boost/mpi/collectives.hpp>
#include <boost/serialization/string.hpp>
#include <tbb/global_control.h>
#include <parmcb/mpi/parmcb.hpp>

// ---- reduction-order self-test: string concatenation, DECLARED commutative like the library's operator ----------
struct CatVal {
    std::string s;
    template<typename Archive> void serialize(Archive &ar, const unsigned) { ar & s; }
};
struct CatOp {
    CatVal operator()(const CatVal &a, const CatVal &b) const { CatVal r; r.s = "(" + a.s + " " + b.s + ")"; return r; }
};
namespace boost { namespace mpi {
    template<> struct is_commutative<CatOp, CatVal> : mpl::true_ { };
} }

static unsigned long long lcg(unsigned long long &s) { s = s * 6364136223846793005ULL + 1442695040888963407ULL; return s >> 33; }

// rank-dependent allocate/free pattern; the blocks that stay allocated are returned (freed at the end of the case)
static std::vector<void*> perturb_heap(unsigned long long pseed, int rank, size_t m) {
    std::vector<void*> keep;
    if (pseed == 0) return keep;
    unsigned long long s = pseed * 1000003ULL + (unsigned long long) (rank + 1) * 7919ULL;
    const size_t sizes[] = { 40, 48, 24, 56, 32 };     // list_edge<size_t, property<edge_weight_t,double|int|long long>> node is 40 bytes
    for (size_t si = 0; si < sizeof(sizes) / sizeof(sizes[0]); si++) {
        size_t cnt = 2 * m + 8 + lcg(s) % 16;
        std::vector<void*> blk;
        for (size_t i = 0; i < cnt; i++) blk.push_back(::operator new(sizes[si]));
        for (size_t i = cnt; i > 1; i--) std::swap(blk[i - 1], blk[lcg(s) % i]);      // rank-dependent order
        size_t nfree = cnt - lcg(s) % 4;
        for (size_t i = 0; i < cnt; i++) { if (i < nfree) ::operator delete(blk[i]); else keep.push_back(blk[i]); }
    }
    return keep;
}

template<class G> void run_alg(const std::string &alg, Toks &t, int scale, std::ostream &out, boost::mpi::communicator &world, bool oracles = true) {
    typedef typename boost::graph_traits<G>::edge_descriptor Edge;
    unsigned long long pseed = std::stoull(t.next());
    size_t save = t.i; size_t m_hint = 0; { t.next_sz(); m_hint = t.next_sz(); t.i = save; }
    std::vector<void*> keep = perturb_heap(pseed, world.rank(), m_hint);
    {
        GCase<G> c; read_graph(t, c, scale);
        if (oracles) print_oracles(out, c); else out << "ROOTS EORD";
        std::list<std::list<Edge>> cycles;
        auto wm = boost::get(boost::edge_weight, c.g);
        typename boost::property_traits<decltype(wm)>::value_type ret;
        if (alg == "signed") ret = parmcb::mcb_sva_signed_mpi(c.g, wm, std::back_inserter(cycles), world);
        else if (alg == "fvs") ret = parmcb::mcb_sva_fvs_trees_mpi(c.g, wm, std::back_inserter(cycles), world);
        else if (alg == "fvs_tbb") ret = parmcb::mcb_sva_fvs_trees_tbb_mpi(c.g, wm, std::back_inserter(cycles), world);
        else if (alg == "iso") ret = parmcb::mcb_sva_iso_trees_mpi(c.g, wm, std::back_inserter(cycles), world);
        else if (alg == "iso_tbb") ret = parmcb::mcb_sva_iso_trees_tbb_mpi(c.g, wm, std::back_inserter(cycles), world);
        else throw std::runtime_error("bad alg");
        out << " RET " << exact_weight(ret, scale);
        print_cycles(out, c, cycles);
        if (oracles) {
            // the same call the way another caller may make it: on a communicator OTHER than MPI_COMM_WORLD (the same processes numbered in reverse, so that
            // its rank 0 is world rank P-1), weights in an EXTERNAL associative property map (the interior property holds decoys in reversed order), cycles
            // through a POSITIONAL output iterator into pre-sized storage.  On the communicator's rank 0: as many cycles as the first call gave on world
            // rank 0, the same returned value, made of the caller's edges, weighing the returned value under the caller's map; nothing written elsewhere.
            // (the per-rank trace hook is switched off for this call)
            typedef typename boost::property_traits<decltype(wm)>::value_type W;
            typedef std::map<Edge, W> Store;
            unsigned long long n0 = cycles.size(); W ret0 = ret;
            boost::mpi::broadcast(world, n0, 0); boost::mpi::broadcast(world, ret0, 0);
            boost::mpi::communicator rev = world.split(0, world.size() - world.rank());
            Store store; W mx = W();
            for (auto &e : c.edges) { store[e] = boost::get(wm, e); if (mx < store[e]) mx = store[e]; }
            for (auto &e : c.edges) boost::put(wm, e, mx + 1 - store[e]);
            boost::associative_property_map<Store> xm(store);
            std::vector<std::list<Edge>> slots((size_t) n0 + 2);
            W ret2 = W();
            unsetenv("PARMCB_VERIF_MPI_TRACE");
            if (alg == "signed") ret2 = parmcb::mcb_sva_signed_mpi(c.g, xm, slots.begin(), rev);
            else if (alg == "fvs") ret2 = parmcb::mcb_sva_fvs_trees_mpi(c.g, xm, slots.begin(), rev);
            else if (alg == "fvs_tbb") ret2 = parmcb::mcb_sva_fvs_trees_tbb_mpi(c.g, xm, slots.begin(), rev);
            else if (alg == "iso") ret2 = parmcb::mcb_sva_iso_trees_mpi(c.g, xm, slots.begin(), rev);
            else ret2 = parmcb::mcb_sva_iso_trees_tbb_mpi(c.g, xm, slots.begin(), rev);
            setenv("PARMCB_VERIF_MPI_TRACE", "1", 1);
            for (auto &e : c.edges) boost::put(wm, e, store[e]);
            const std::string what = "reversed communicator + external weight map + positional output iterator (world rank " + std::to_string(world.rank()) + ", communicator rank " + std::to_string(rev.rank()) + "): ";
            size_t written = 0; W tot = W(); std::string bad;
            for (size_t i = 0; i < slots.size() && bad.empty(); i++) {
                if (slots[i].empty()) continue;
                if (i != written) bad = "slot " + std::to_string(i) + " written, slot " + std::to_string(written) + " left empty";
                written++;
                for (auto &e : slots[i]) { if (c.id(e) == (size_t) -1) { bad = "a returned edge is not an edge of the caller's graph"; break; } tot = tot + store[e]; }
            }
            if (bad.empty() && rev.rank() != 0 && written != 0) bad = std::to_string(written) + " cycles written on a rank other than the communicator's rank 0";
            if (bad.empty() && rev.rank() == 0) {
                if (written != (size_t) n0) bad = std::to_string(written) + " cycles written, " + std::to_string(n0) + " on world rank 0 through back_inserter with the interior map";
                else if (!(ret2 == ret0)) bad = "returned value " + exact_weight(ret2, scale) + " differs from " + exact_weight(ret0, scale) + " (MPI_COMM_WORLD, interior map, back_inserter)";
                else if (!(tot == ret2)) bad = "the written cycles weigh " + exact_weight(tot, scale) + " under the caller's map, returned " + exact_weight(ret2, scale);
            }
            if (!bad.empty()) throw std::runtime_error(what + bad);
        }
        out << " RANK " << world.rank() << " EMITTED " << cycles.size() << " DONE";
    }
    for (void *p : keep) ::operator delete(p);
}

static void run_redtest(Toks &t, std::ostream &out, boost::mpi::communicator &world) {
    size_t k = t.next_sz();
    for (size_t j = 0; j < k; j++) {
        CatVal mine, res; mine.s = std::to_string(world.rank());
        if (world.rank() == 0) boost::mpi::reduce(world, mine, res, CatOp(), 0);
        else boost::mpi::reduce(world, mine, CatOp(), 0);
        if (j == 0) out << "REDTREE " << (world.rank() == 0 ? res.s : std::string("-"));
    }
    out << " RANK " << world.rank() << " EMITTED 0 DONE";
}

int main(int argc, char **argv) {
    boost::mpi::environment env(argc, argv);
    boost::mpi::communicator world;
    if (argc < 3) { std::cerr << "usage: c04 <case file> <out prefix> [tbb threads]\n"; return 2; }
    int threads = argc > 3 ? std::atoi(argv[3]) : 1;
    tbb::global_control gc(tbb::global_control::max_allowed_parallelism, (size_t) std::max(1, threads));
    std::ifstream in(argv[1]);
    std::ofstream of(std::string(argv[2]) + "." + std::to_string(world.rank()));
    setenv("PARMCB_VERIF_MPI_TRACE", "1", 1);
    {
        std::string ef = std::string(argv[2]) + ".err." + std::to_string(world.rank());
        int fd = ::open(ef.c_str(), O_WRONLY | O_CREAT | O_TRUNC, 0644);
        if (fd >= 0) { ::dup2(fd, 2); ::close(fd); }
    }
    std::string line;
    size_t case_index = 0;
    while (std::getline(in, line)) {
        if (line.empty() || line[0] == '#') continue;
        { std::ostringstream mk; mk << "VERIF-CASE " << case_index++ << "\n"; std::cerr << mk.str(); }
        std::ostringstream out;
        bool failed = false;
        try {
            Toks t(line);
            std::string alg = t.next();
            if (alg == "T") run_redtest(t, out, world);
            else {
                bool oracles = true;
                if (alg == "G") { oracles = false; alg = t.next(); }
                std::string ty = t.next(); int scale = (int) t.next_ll();
                if (ty == "D") run_alg<DGraph>(alg, t, scale, out, world, oracles);
                else if (ty == "L") run_alg<LGraph>(alg, t, 0, out, world, oracles);
                else if (ty == "I") run_alg<IGraph>(alg, t, 0, out, world, oracles);
                else throw std::runtime_error("bad weight type");
            }
        }
        catch (const std::exception &e) { out.str(""); out << "IMPL-EXCEPTION " << e.what(); failed = true; }
        catch (...) { out.str(""); out << "IMPL-EXCEPTION unknown"; failed = true; }
        of << out.str() << "\n"; of.flush();
        if (failed) {          // the other ranks may be inside a collective: the job cannot continue
            of.close();
            MPI_Abort(MPI_COMM_WORLD, 3);
        }
    }
    of.close();
    return 0;
}
