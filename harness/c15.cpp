// c15.cpp — the spanner built by BaseApproxSpannerAlgorithm (through the PARMCB_VERIF accessors) and
// is_bfs_reachable on the real code.
#include "graph.hpp"
#include <parmcb/parmcb_approx_sva_signed.hpp>

typedef std::back_insert_iterator<std::list<std::list<DGraph::edge_descriptor>>> OutIt;
typedef boost::property_map<DGraph, boost::edge_weight_t>::type WMap;

template<class Algo> void dump(std::ostream &out, GCase<DGraph> &c, Algo &algo) {
        const DGraph &sp = algo.verif_spanner();
        const auto &tr = algo.verif_edge_spanner_to_g();
        out << "NV " << boost::num_vertices(sp) << " RET";
        std::vector<DGraph::edge_descriptor> sedges;
        for (auto ep = boost::edges(sp); ep.first != ep.second; ++ep.first) sedges.push_back(*ep.first);
        for (auto &se : sedges) { auto it = tr.find(se); out << " " << (it == tr.end() ? std::string("?") : std::to_string(c.id(it->second))); }
        out << " DROP";
        for (auto &e : algo.verif_non_spanner_edges()) out << " " << c.id(e);
        out << " SPE";
        for (auto &se : sedges) out << " " << boost::source(se, sp) << " " << boost::target(se, sp);
        out << " SPW";
        for (auto &se : sedges) out << " " << exact_weight(boost::get(boost::edge_weight, sp, se), 0);
        out << " MAPSIZE " << tr.size();
}

int main() {
    return run_cases([](Toks &t, std::ostream &out) {
        std::string kind = t.next();
        if (kind == "B") {      // B s t hops|inf graph : is_bfs_reachable
            size_t s = t.next_sz(), tg = t.next_sz(); std::string h = t.next();
            size_t hops = (h == "inf") ? (std::numeric_limits<std::size_t>::max)() : (size_t) std::stoull(h);
            GCase<DGraph> c; read_graph(t, c);
            out << "B " << (parmcb::is_bfs_reachable(c.g, s, tg, hops) ? 1 : 0);
            return;
        }
        if (kind == "S2") {     // S2 k graph : the caller's weight map is an EXTERNAL map; the interior edge_weight property holds decoys
            size_t k = t.next_sz();
            GCase<DGraph> c; read_graph(t, c);
            typedef std::map<DGraph::edge_descriptor, double> Store;
            typedef boost::associative_property_map<Store> XMap;
            Store store; double mx = 0;
            for (size_t i = 0; i < c.edges.size(); i++) { store[c.edges[i]] = (double) c.iw[i]; mx = std::max(mx, (double) c.iw[i]); }
            for (size_t i = 0; i < c.edges.size(); i++) boost::put(boost::edge_weight, c.g, c.edges[i], mx + 1 - (double) c.iw[i]);   // reversed order
            XMap xm(store);
            typedef parmcb::detail::mcb_sva_signed<DGraph, XMap, OutIt> Exact2;
            parmcb::detail::BaseApproxSpannerAlgorithm<DGraph, XMap, Exact2, false> algo(c.g, xm, boost::get(boost::vertex_index, c.g), k);
            dump(out, c, algo);
            return;
        }
        // S k graph
        size_t k = t.next_sz();
        GCase<DGraph> c; read_graph(t, c);
        typedef parmcb::detail::mcb_sva_signed<DGraph, WMap, OutIt> Exact;
        WMap wm = boost::get(boost::edge_weight, c.g);
        parmcb::detail::BaseApproxSpannerAlgorithm<DGraph, WMap, Exact, false> algo(c.g, wm, boost::get(boost::vertex_index, c.g), k);
        dump(out, c, algo);
    });
}
