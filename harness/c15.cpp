// c15.cpp — the spanner built by BaseApproxSpannerAlgorithm (through the PARMCB_VERIF accessors) and
// is_bfs_reachable on the real code.
//   B s t hops|inf <graph>   is_bfs_reachable
//   S k <graph>              spanner, double weights (interior edge_weight property)
//   S2 k <graph>             spanner, double weights through an EXTERNAL property map (the interior property holds decoys)
//   SL k <graph>             spanner, long long weights (64-bit: values above 2^53, distinct weights that collide as doubles)
//   SL2 k <graph>            spanner, long long weights through an external property map
#include "graph.hpp"
#include <parmcb/parmcb_approx_sva_signed.hpp>

template<class G, class Algo> void dump(std::ostream &out, GCase<G> &c, Algo &algo) {
        typedef typename boost::graph_traits<G>::edge_descriptor Edge;
        const G &sp = algo.verif_spanner();
        const auto &tr = algo.verif_edge_spanner_to_g();
        out << "NV " << boost::num_vertices(sp) << " RET";
        std::vector<Edge> sedges;
        for (auto ep = boost::edges(sp); ep.first != ep.second; ++ep.first) sedges.push_back(*ep.first);
        for (auto &se : sedges) { auto it = tr.find(se); out << " " << (it == tr.end() ? std::string("?") : std::to_string(c.id(it->second))); }
        out << " DROP";
        for (auto &e : algo.verif_non_spanner_edges()) out << " " << c.id(e);
        out << " SPE";
        for (auto &se : sedges) out << " " << boost::source(se, sp) << " " << boost::target(se, sp);
        out << " SPW";
        for (auto &se : sedges) out << " " << exact_weight(boost::get(boost::edge_weight, sp, se), 0);
        out << " MAPSIZE " << tr.size();
}

// the caller's weight map is an EXTERNAL map; the interior edge_weight property holds decoys (the reversed order)
template<class G> void run_external(Toks &t, std::ostream &out) {
    typedef typename boost::graph_traits<G>::edge_descriptor Edge;
    typedef typename boost::property_traits<typename boost::property_map<G, boost::edge_weight_t>::type>::value_type W;
    typedef std::back_insert_iterator<std::list<std::list<Edge>>> OutIt;
    size_t k = t.next_sz();
    GCase<G> c; read_graph(t, c);
    typedef std::map<Edge, W> Store;
    typedef boost::associative_property_map<Store> XMap;
    Store store; W mx = 0;
    for (size_t i = 0; i < c.edges.size(); i++) { store[c.edges[i]] = (W) c.iw[i]; mx = std::max(mx, (W) c.iw[i]); }
    for (size_t i = 0; i < c.edges.size(); i++) boost::put(boost::edge_weight, c.g, c.edges[i], mx + 1 - (W) c.iw[i]);   // reversed order
    XMap xm(store);
    typedef parmcb::detail::mcb_sva_signed<G, XMap, OutIt> Exact2;
    parmcb::detail::BaseApproxSpannerAlgorithm<G, XMap, Exact2, false> algo(c.g, xm, boost::get(boost::vertex_index, c.g), k);
    dump(out, c, algo);
}

template<class G> void run_interior(Toks &t, std::ostream &out) {
    typedef typename boost::graph_traits<G>::edge_descriptor Edge;
    typedef typename boost::property_map<G, boost::edge_weight_t>::type WMap;
    typedef std::back_insert_iterator<std::list<std::list<Edge>>> OutIt;
    size_t k = t.next_sz();
    GCase<G> c; read_graph(t, c);
    typedef parmcb::detail::mcb_sva_signed<G, WMap, OutIt> Exact;
    WMap wm = boost::get(boost::edge_weight, c.g);
    parmcb::detail::BaseApproxSpannerAlgorithm<G, WMap, Exact, false> algo(c.g, wm, boost::get(boost::vertex_index, c.g), k);
    dump(out, c, algo);
}

int main() {
    return run_cases([](Toks &t, std::ostream &out) {
        std::string kind = t.next();
        if (kind == "B") {      // B s t hops|inf graph : is_bfs_reachable
            size_t s = t.next_sz(), tg = t.next_sz(); std::string h = t.next();
            size_t hops = (h == "inf") ? (std::numeric_limits<std::size_t>::max)() : (size_t) std::stoull(h);
            GCase<DGraph> c; read_graph(t, c);
            out << "B " << (parmcb::is_bfs_reachable(c.g, s, tg, hops) ? 1 : 0);
            return;
        }
        if (kind == "S2") run_external<DGraph>(t, out);
        else if (kind == "SL2") run_external<LGraph>(t, out);
        else if (kind == "SL") run_interior<LGraph>(t, out);
        else run_interior<DGraph>(t, out);      // S k graph
    });
}
