// c18.cpp — ext_gcd / get_mult_inverse / is_prime / SpVecFP on the real code, for long long, int and cpp_int.
// Case kinds: G I P V = long long, GB IB PB VB = cpp_int, Gi Ii Pi Vi = int, Vs = short (vectors only: a narrow coefficient type, many common indices),
// VW VWB = long long / cpp_int vectors with the coordinates spread over both ends of the std::size_t index space.
// Built three times by tools/props/c18.py: plain; with -fsanitize=signed-integer-overflow -fno-sanitize-recover=all (an
// overflow aborts the process: the case answers CRASH); and the same with -DC18_NO_INVARIANTS_CHECK, i.e. without the
// extra computations of PARMCB_INVARIANTS_CHECK (the assertion of ext_gcd, sqrtt*sqrtt in is_prime, the p <= 0 test).
#include "common.hpp"
#include <parmcb/config.hpp>   // PARMCB_INVARIANTS_CHECK as in the repository's build
#ifdef C18_NO_INVARIANTS_CHECK
#undef PARMCB_INVARIANTS_CHECK
#endif
#include <boost/multiprecision/cpp_int.hpp>
#include <parmcb/arithmetic.hpp>
#include <parmcb/fp.hpp>
#include <parmcb/spvecfp.hpp>
typedef boost::multiprecision::cpp_int BI;
typedef long long LL;

template<class T> static T parse(const std::string &s);
template<> LL parse<LL>(const std::string &s) { return std::stoll(s); }
template<> int parse<int>(const std::string &s) { return std::stoi(s); }
template<> short parse<short>(const std::string &s) { return (short) std::stoi(s); }
template<> BI parse<BI>(const std::string &s) { if (s[0] == '-') return -BI(s.substr(1)); return BI(s); }

template<class T> static void do_gcd(Toks &t, std::ostream &out) {
    T a = parse<T>(t.next()), b = parse<T>(t.next());
    T x = 777, y = 777;   // sentinels: an unwritten coefficient shows up as 777
    T g = parmcb::fp<T>::ext_gcd(a, b, x, y);
    out << "G " << g << " " << x << " " << y;
}
template<class T> static void do_inv(Toks &t, std::ostream &out) {
    T a = parse<T>(t.next()), p = parse<T>(t.next());
    try { T x = parmcb::fp<T>::get_mult_inverse(a, p); out << "I " << x; }
    catch (std::runtime_error *e) { out << "THROW"; delete e; }
    catch (const std::exception &e) { out << "THROW"; }
}
template<class T> static void do_prime(Toks &t, std::ostream &out) {
    T p = parse<T>(t.next());
    try { out << "P " << (parmcb::primes<T>::is_prime(p) ? 1 : 0); }
    catch (std::runtime_error *e) { out << "THROW"; delete e; }
}
// wide = true (case kinds VW, VWB): the coordinates 0..D-1 of the history are renamed monotonically onto BOTH ends of the std::size_t index space
// (i < D/2 stays, the others become SIZE_MAX-(D-1-i)), so that merged coordinates lie more than 2^63 apart; printed back under the inverse renaming
template<class T> static void do_vec(Toks &t, std::ostream &out, bool wide = false) {
    typedef parmcb::SpVecFP<T> V;
    T p = parse<T>(t.next()); size_t K = t.next_sz(); const size_t D = t.next_sz(); size_t nops = t.next_sz();
    const size_t SMAX = std::numeric_limits<size_t>::max();
    auto ren = [&](size_t i) { return (!wide || i < D / 2) ? i : SMAX - (D - 1 - i); };
    auto inv = [&](size_t x) { return (!wide || x < SMAX / 2) ? x : D - 1 - (SMAX - x); };
    std::vector<V> st(K, V(p));
    out << "O";
    for (size_t n = 0; n < nops; n++) {
        std::string o = t.next();
        if (o == "U") { size_t d = t.next_sz(), i = t.next_sz(); st[d] = ren(i); }
        else if (o == "C") { size_t d = t.next_sz(), a = t.next_sz(); V tmp(st[a]); st[d] = tmp; }
        else if (o == "A") { size_t d = t.next_sz(), a = t.next_sz(); st[d] = st[a]; }
        else if (o == "M") { size_t d = t.next_sz(), a = t.next_sz(); V tmp(st[a]); V other(p == T(3) ? T(5) : T(3)); st[d] = other; st[d] = std::move(tmp); }   // target first COPY-assigned a vector over another prime
        else if (o == "P") { size_t d = t.next_sz(), a = t.next_sz(), b = t.next_sz(); st[d] = st[a] + st[b]; }
        else if (o == "Q") { size_t d = t.next_sz(), a = t.next_sz(); st[d] += st[a]; }
        else if (o == "S") { size_t d = t.next_sz(), a = t.next_sz(); T c = parse<T>(t.next()); st[d] = st[a] * c; }
        else if (o == "R") { size_t d = t.next_sz(); T c = parse<T>(t.next()); st[d] *= c; }
        else if (o == "RA") {   // scaling by the vector's OWN leading coefficient, passed by reference into its storage (the case carries the value the dense computation predicts)
            size_t d = t.next_sz(); T c = parse<T>(t.next());
            if (st[d].begin() != st[d].end()) st[d] *= boost::get<1>(*st[d].begin()); else st[d] *= c;
        }
        else if (o == "X") { size_t d = t.next_sz(); st[d].clear(); }
        else if (o == "D") { size_t a = t.next_sz(), b = t.next_sz(); T r = st[a] * st[b]; out << " " << r; }
        else if (o == "Z") { size_t a = t.next_sz(); out << " " << st[a].size(); }
        else throw std::runtime_error("bad op " + o);
    }
    for (size_t k = 0; k < K; k++) {
        out << " ; V";
        for (auto it = st[k].begin(); it != st[k].end(); ++it) out << " " << inv(boost::get<0>(*it)) << ":" << boost::get<1>(*it);
        if (st[k].prime() != p) out << " PRIME-CHANGED";
    }
}

int main() {
    return run_cases([](Toks &t, std::ostream &out) {
        std::string c = t.next();
        if (c == "G") do_gcd<LL>(t, out); else if (c == "GB") do_gcd<BI>(t, out); else if (c == "Gi") do_gcd<int>(t, out);
        else if (c == "I") do_inv<LL>(t, out); else if (c == "IB") do_inv<BI>(t, out); else if (c == "Ii") do_inv<int>(t, out);
        else if (c == "P") do_prime<LL>(t, out); else if (c == "PB") do_prime<BI>(t, out); else if (c == "Pi") do_prime<int>(t, out);
        else if (c == "V") do_vec<LL>(t, out); else if (c == "VB") do_vec<BI>(t, out); else if (c == "Vi") do_vec<int>(t, out); else if (c == "Vs") do_vec<short>(t, out);
        else if (c == "VW") do_vec<LL>(t, out, true); else if (c == "VWB") do_vec<BI>(t, out, true);
        else throw std::runtime_error("bad case kind " + c);
    });
}
