// c03_real.cpp — the TBB-parallel entry points of parmcb on the REAL oneTBB (no shim, -ltbb), with a chosen number of
// workers.  Runtime sampling that supports the claim the shim-based check makes about all schedules; also the binary
// that is run under ThreadSanitizer in the thorough tier (race clause of C03: runtime evidence only).
//   R <alg> [k] <D|I|L> <scale> <workers> <graph>
//       alg = signed_tbb | fvs_tbb | iso_tbb | approx_signed_tbb k | approx_fvs_tbb k | approx_iso_tbb k
//       D = double weights w*2^scale, I = int weights, L = long long weights (64-bit integers, values above 2^53 included)
//   prints  RET w N n CYC (len ids)* [SEQRET w SEQN n]
#include <tbb/tbb.h>
#ifdef VERIF_FAKE_TBB
#error "c03_real.cpp must be compiled against the real TBB (no shim)"
#endif
#include "mcb_common.hpp"

#if defined(__SANITIZE_THREAD__)
// ThreadSanitizer build.  libtbb.so is not instrumented, so the two happens-before edges that every TBB algorithm
// guarantees but implements inside the library are invisible to TSan and would be reported as races:
//   fork: everything before the call of parallel_for / parallel_reduce happens before every task body of that call;
//   join: every task body happens before the return of the call.
// The wrappers below add exactly these two edges with TSan annotations (on two global tokens; parmcb never nests or
// overlaps parallel constructs) and nothing else: two task bodies of the same call remain unordered, so a conflict
// between tasks of one parallel construct is still reported.  Hand-offs of TBB's own task objects (ranges, closures,
// the identity value of a reduction, which are copied by the splitting thread and read by the executing thread) stay
// invisible; tools/props/c03.py therefore only counts a report when BOTH accesses lie inside parmcb task bodies (a frame
// of include/parmcb above the wrapper lambda).  parmcb's calls `tbb::parallel_for(..)` / `tbb::parallel_reduce(..)` are
// routed to the wrappers by two macros defined AFTER the real TBB headers were included; the parmcb headers are unchanged.
extern "C" void __tsan_acquire(void *addr);
extern "C" void __tsan_release(void *addr);
namespace verif_hb {
    static char fork_token, join_token;
    static const void *cur_body, *cur_join;
}
namespace tbb {
    template<typename Range, typename Body>
    void verif_hb_parallel_for(const Range &range, const Body &body) {
        verif_hb::cur_body = &body;
        __tsan_release(&verif_hb::fork_token);
        tbb::parallel_for(range, [](const Range &r) {
            __tsan_acquire(&verif_hb::fork_token);
            (*static_cast<const Body*>(verif_hb::cur_body))(r);
            __tsan_release(&verif_hb::join_token);
        });
        __tsan_acquire(&verif_hb::join_token);
    }
    template<typename Range, typename Value, typename RealBody, typename Reduction>
    Value verif_hb_parallel_reduce(const Range &range, const Value &identity, const RealBody &real_body, const Reduction &reduction) {
        verif_hb::cur_body = &real_body;
        verif_hb::cur_join = &reduction;
        __tsan_release(&verif_hb::fork_token);
        Value v = tbb::parallel_reduce(range, identity,
                [](const Range &r, const Value &x) {
                    __tsan_acquire(&verif_hb::fork_token);
                    Value y = (*static_cast<const RealBody*>(verif_hb::cur_body))(r, x);
                    __tsan_release(&verif_hb::join_token);
                    return y;
                },
                [](const Value &a, const Value &b) {
                    __tsan_acquire(&verif_hb::fork_token);
                    Value y = (*static_cast<const Reduction*>(verif_hb::cur_join))(a, b);
                    __tsan_release(&verif_hb::join_token);
                    return y;
                });
        __tsan_acquire(&verif_hb::join_token);
        return v;
    }
}
#define parallel_for verif_hb_parallel_for
#define parallel_reduce verif_hb_parallel_reduce
#endif

#include <parmcb/parmcb_sva_signed_tbb.hpp>
#include <parmcb/parmcb_sva_trees.hpp>
#include <parmcb/parmcb_approx_sva_signed.hpp>
#include <parmcb/parmcb_approx_sva_trees.hpp>
#include <parmcb/parmcb_approx_sva_signed_tbb.hpp>
#include <parmcb/parmcb_approx_sva_trees_tbb.hpp>

template<class G> void run_alg(const std::string &alg, size_t k, size_t workers, Toks &t, int scale, std::ostream &out) {
    typedef typename boost::graph_traits<G>::edge_descriptor Edge;
    GCase<G> c; read_graph(t, c, scale);
    std::list<std::list<Edge>> cycles, seqcycles;
    auto wm = boost::get(boost::edge_weight, c.g);
    typedef typename boost::property_traits<decltype(wm)>::value_type W;
    W ret = W(), seqret = W(); bool approx = alg.compare(0, 7, "approx_") == 0;
    {
        tbb::global_control limit(tbb::global_control::max_allowed_parallelism, workers);
        tbb::task_arena arena((int) workers);
        arena.execute([&] {
            if (alg == "signed_tbb") ret = parmcb::mcb_sva_signed_tbb(c.g, wm, std::back_inserter(cycles));
            else if (alg == "fvs_tbb") ret = parmcb::mcb_sva_fvs_trees_tbb(c.g, wm, std::back_inserter(cycles));
            else if (alg == "iso_tbb") ret = parmcb::mcb_sva_iso_trees_tbb(c.g, wm, std::back_inserter(cycles));
            else if (alg == "approx_signed_tbb") ret = parmcb::approx_mcb_sva_signed_tbb(c.g, wm, k, std::back_inserter(cycles));
            else if (alg == "approx_fvs_tbb") ret = parmcb::approx_mcb_sva_fvs_trees_tbb(c.g, wm, k, std::back_inserter(cycles));
            else if (alg == "approx_iso_tbb") ret = parmcb::approx_mcb_sva_iso_trees_tbb(c.g, wm, k, std::back_inserter(cycles));
            else throw std::runtime_error("bad alg");
        });
    }
    out << "RET " << exact_weight(ret, scale);
    print_cycles(out, c, cycles);
    if (approx) {
        if (alg == "approx_signed_tbb") seqret = parmcb::approx_mcb_sva_signed(c.g, wm, k, std::back_inserter(seqcycles));
        else if (alg == "approx_fvs_tbb") seqret = parmcb::approx_mcb_sva_fvs_trees(c.g, wm, k, std::back_inserter(seqcycles));
        else seqret = parmcb::approx_mcb_sva_iso_trees(c.g, wm, k, std::back_inserter(seqcycles));
        out << " SEQRET " << exact_weight(seqret, scale) << " SEQN " << seqcycles.size();
    }
}

int main() {
    return run_cases([](Toks &t, std::ostream &out) {
        std::string kind = t.next();
        if (kind != "R") throw std::runtime_error("bad kind");
        std::string alg = t.next();
        size_t k = 0;
        if (alg.compare(0, 7, "approx_") == 0) k = t.next_sz();
        std::string ty = t.next(); int scale = (int) t.next_ll();
        size_t workers = t.next_sz();
        if (ty == "D") run_alg<DGraph>(alg, k, workers, t, scale, out);
        else if (ty == "L") run_alg<LGraph>(alg, k, workers, t, 0, out);
        else if (ty == "I") run_alg<IGraph>(alg, k, workers, t, 0, out);
        else if (ty == "U") run_alg<UGraph>(alg, k, workers, t, 0, out);
        else throw std::runtime_error("bad weight type");
    });
}
