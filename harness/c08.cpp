// c08.cpp — every exact entry point that needs no MPI, on ONE weighted graph per case; prints each returned value exactly.
//   M <D|I|L> <scale> <algs> <graph>
//       D = double weights w*2^scale (returned values printed in units of 2^scale), I = int weights (scale ignored),
//       L = long long weights (64-bit integers, values above 2^53 included; scale ignored)
//       algs = '+'-separated subset of signed,fvs,iso,signed_tbb,fvs_tbb,iso_tbb  or  all
//   prints  for each algorithm run, in the order given:  <alg> RET <value> N <#cycles> SUM <sum of the weights of all emitted edges>
// The *_tbb entry points run on the real oneTBB scheduler (4 worker threads), i.e. under whatever schedule happens.
#include <tbb/tbb.h>
#include <tbb/global_control.h>
#include "mcb_common.hpp"
#include <parmcb/parmcb_sva_signed.hpp>
#include <parmcb/parmcb_sva_trees.hpp>
#include <parmcb/parmcb_sva_signed_tbb.hpp>

template<class G> void run_all(const std::vector<std::string> &algs, Toks &t, int scale, std::ostream &out) {
    typedef typename boost::graph_traits<G>::edge_descriptor Edge;
    GCase<G> c; read_graph(t, c, scale);
    auto wm = boost::get(boost::edge_weight, c.g);
    typedef typename boost::property_traits<decltype(wm)>::value_type W;
    bool first = true;
    for (auto &alg : algs) {
        std::list<std::list<Edge>> cycles;
        W ret;
        if (alg == "signed") ret = parmcb::mcb_sva_signed(c.g, wm, std::back_inserter(cycles));
        else if (alg == "fvs") ret = parmcb::mcb_sva_fvs_trees(c.g, wm, std::back_inserter(cycles));
        else if (alg == "iso") ret = parmcb::mcb_sva_iso_trees(c.g, wm, std::back_inserter(cycles));
        else if (alg == "signed_tbb") ret = parmcb::mcb_sva_signed_tbb(c.g, wm, std::back_inserter(cycles));
        else if (alg == "fvs_tbb") ret = parmcb::mcb_sva_fvs_trees_tbb(c.g, wm, std::back_inserter(cycles));
        else if (alg == "iso_tbb") ret = parmcb::mcb_sva_iso_trees_tbb(c.g, wm, std::back_inserter(cycles));
        else throw std::runtime_error("bad alg " + alg);
        W sum = W();
        for (auto &cy : cycles) for (auto &e : cy) sum += boost::get(wm, e);
        out << (first ? "" : " ") << alg << " RET " << exact_weight(ret, scale) << " N " << cycles.size() << " SUM " << exact_weight(sum, scale);
        first = false;
    }
}

int main() {
    tbb::global_control gc(tbb::global_control::max_allowed_parallelism, 4);
    return run_cases([](Toks &t, std::ostream &out) {
        std::string kind = t.next();
        if (kind != "M") throw std::runtime_error("bad kind");
        std::string ty = t.next(); int scale = (int) t.next_ll(); std::string al = t.next();
        std::vector<std::string> algs;
        if (al == "all") algs = {"signed", "fvs", "iso", "signed_tbb", "fvs_tbb", "iso_tbb"};
        else { std::stringstream ss(al); std::string a; while (std::getline(ss, a, '+')) algs.push_back(a); }
        if (ty == "D") run_all<DGraph>(algs, t, scale, out);
        else if (ty == "L") run_all<LGraph>(algs, t, 0, out);
        else if (ty == "I") run_all<IGraph>(algs, t, 0, out);
        else throw std::runtime_error("bad weight type");
    });
}
