// graph.hpp — builds Boost graphs from case tokens and maps edge descriptors back to edge ids
// (edge id = insertion order = position in boost::edges(g)).
#ifndef VERIF_GRAPH_HPP
#define VERIF_GRAPH_HPP
#include "common.hpp"
#include <boost/graph/adjacency_list.hpp>
#include <boost/graph/graph_traits.hpp>
#include <boost/property_map/property_map.hpp>

typedef boost::adjacency_list<boost::vecS, boost::vecS, boost::undirectedS, boost::no_property,
        boost::property<boost::edge_weight_t, double>> DGraph;
typedef boost::adjacency_list<boost::vecS, boost::vecS, boost::undirectedS, boost::no_property,
        boost::property<boost::edge_weight_t, int>> IGraph;
typedef boost::adjacency_list<boost::vecS, boost::vecS, boost::undirectedS, boost::no_property,
        boost::property<boost::edge_weight_t, long long>> LGraph;      // 64-bit integer weights (values above 2^53 are not doubles)
typedef boost::adjacency_list<boost::vecS, boost::vecS, boost::undirectedS, boost::no_property,
        boost::property<boost::edge_weight_t, unsigned long>> UGraph;  // unsigned integer weights (differences of distances wrap around)

template<class G> struct GCase {
    typedef typename boost::graph_traits<G>::edge_descriptor Edge;
    G g;
    std::vector<Edge> edges;            // id -> descriptor
    std::vector<long long> iw;          // integer weights as given in the case
    int scale = 0;                      // double weight = ldexp(iw, scale)
    size_t id(const Edge &e) const {    // descriptor -> id (by the address of the edge property)
        for (size_t i = 0; i < edges.size(); i++) if (edges[i] == e) return i;
        return (size_t) -1;
    }
};

// tokens: n m (u v w)*m ; weights scaled by 2^scale for double graphs
template<class G> void read_graph(Toks &t, GCase<G> &c, int scale = 0) {
    size_t n = t.next_sz(), m = t.next_sz();
    c.scale = scale;
    c.g = G(n);
    for (size_t i = 0; i < m; i++) {
        size_t u = t.next_sz(), v = t.next_sz(); long long w = t.next_ll();
        auto e = boost::add_edge(u, v, c.g).first;
        typedef typename boost::property_traits<typename boost::property_map<G, boost::edge_weight_t>::type>::value_type W;
        boost::put(boost::edge_weight, c.g, e, std::is_integral<W>::value ? (W) w : (W) std::ldexp((double) w, scale));
        c.iw.push_back(w);
    }
    c.edges.clear();
    for (auto ep = boost::edges(c.g); ep.first != ep.second; ++ep.first) c.edges.push_back(*ep.first);
}

// print a weight of a graph case exactly, as an integer in the case's units (or as a hex float if not integral)
inline std::string exact_weight(double x, int scale) {
    double y = std::ldexp(x, -scale);
    char buf[64];
    if (std::isfinite(y) && y == std::floor(y) && std::fabs(y) < 9e15) { snprintf(buf, sizeof buf, "%.0f", y); return buf; }
    snprintf(buf, sizeof buf, "%a", x); return std::string("H") + buf;
}
inline std::string exact_weight(int x, int) { return std::to_string(x); }
inline std::string exact_weight(long long x, int) { return std::to_string(x); }
inline std::string exact_weight(unsigned long x, int) { return std::to_string(x); }
#endif
