// c14.cpp — the three candidate-cycle collections of the real code, in emission order.
// case:  A <graph>   double weights      AI <graph>   int weights      AL <graph>   long long weights (64-bit: values above 2^53)
// output: for X in H (Horton), F (FVS), I (isometric):  "X <k> (root edge weight)*k T <nt> (source pred_0 .. pred_{n-1})*nt"
//   root = trees[c.tree()].source(), edge = insertion index, weight exact; the T part lists the builder's trees in order:
//   source and, per vertex, the predecessor edge id (-1 = root, -2 = no node).  The sources of F's trees are the
//   feedback vertex set in emission order.
#include "graph.hpp"
#include <parmcb/detail/cycles.hpp>

template<class G, class Builder> void run_builder(std::ostream &out, GCase<G> &c) {
    typedef typename boost::property_map<G, boost::edge_weight_t>::type WMap;
    WMap wm = boost::get(boost::edge_weight, c.g);
    std::vector<parmcb::SPTree<G, WMap>> trees;
    std::vector<parmcb::CandidateCycle<G, WMap>> cycles;
    Builder b;
    b(c.g, wm, trees, cycles);
    out << " " << cycles.size();
    for (auto &cc : cycles)
        out << " " << trees.at(cc.tree()).source() << " " << c.id(cc.edge()) << " " << exact_weight(cc.weight(), c.scale);
    out << " T " << trees.size();
    for (auto &t : trees) {
        out << " " << t.source();
        for (auto vp = boost::vertices(c.g); vp.first != vp.second; ++vp.first) {
            auto nd = t.node(*vp.first);
            if (nd == nullptr) out << " -2";
            else if (!nd->has_pred()) out << " -1";
            else out << " " << c.id(nd->pred());
        }
    }
}

template<class G> void run_all(Toks &t, std::ostream &out) {
    typedef typename boost::property_map<G, boost::edge_weight_t>::type WMap;
    GCase<G> c; read_graph(t, c);
    out << "H"; run_builder<G, parmcb::detail::HortonCyclesBuilder<G, WMap>>(out, c);
    out << " F"; run_builder<G, parmcb::detail::FVSCyclesBuilder<G, WMap>>(out, c);
    out << " I"; run_builder<G, parmcb::detail::ISOCyclesBuilder<G, WMap>>(out, c);
}

int main() {
    return run_cases([](Toks &t, std::ostream &out) {
        std::string kind = t.next();
        if (kind == "A") run_all<DGraph>(t, out);
        else if (kind == "AI") run_all<IGraph>(t, out);
        else if (kind == "AL") run_all<LGraph>(t, out);
        else throw std::runtime_error("c14: bad kind " + kind);
    });
}
