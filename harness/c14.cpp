// c14.cpp — the three candidate-cycle collections of the real code, in emission order.
// case:  A <graph>   double weights      AI <graph>   int weights      AL <graph>   long long weights (64-bit: values above 2^53)
//        AX <graph>  double weights handed over through an EXTERNAL property map (associative map over std::map<Edge,double>); the graph's interior
//                    edge_weight property holds decoys (max+1-w), which the builders must not look at
//        AS scale <graph>  double weights w * 2^scale (tiny / huge magnitudes, exact); recorded weights are printed in the case's units (unscaled)
// output: for X in H (Horton), F (FVS), I (isometric):  "X <k> (root edge weight)*k T <nt> (source pred_0 .. pred_{n-1})*nt"
//   root = trees[c.tree()].source(), edge = insertion index, weight exact; the T part lists the builder's trees in order:
//   source and, per vertex, the predecessor edge id (-1 = root, -2 = no node).  The sources of F's trees are the
//   feedback vertex set in emission order.
#include "graph.hpp"
#include <parmcb/detail/cycles.hpp>

template<class G, class WMap, class Builder> void run_builder(std::ostream &out, GCase<G> &c, WMap wm) {
    std::vector<parmcb::SPTree<G, WMap>> trees;
    std::vector<parmcb::CandidateCycle<G, WMap>> cycles;
    Builder b;
    b(c.g, wm, trees, cycles);
    out << " " << cycles.size();
    for (auto &cc : cycles)
        out << " " << trees.at(cc.tree()).source() << " " << c.id(cc.edge()) << " " << exact_weight(cc.weight(), c.scale);
    out << " T " << trees.size();
    for (auto &t : trees) {
        out << " " << t.source();
        for (auto vp = boost::vertices(c.g); vp.first != vp.second; ++vp.first) {
            auto nd = t.node(*vp.first);
            if (nd == nullptr) out << " -2";
            else if (!nd->has_pred()) out << " -1";
            else out << " " << c.id(nd->pred());
        }
    }
}

template<class G, class WMap> void run_three(std::ostream &out, GCase<G> &c, WMap wm) {
    out << "H"; run_builder<G, WMap, parmcb::detail::HortonCyclesBuilder<G, WMap>>(out, c, wm);
    out << " F"; run_builder<G, WMap, parmcb::detail::FVSCyclesBuilder<G, WMap>>(out, c, wm);
    out << " I"; run_builder<G, WMap, parmcb::detail::ISOCyclesBuilder<G, WMap>>(out, c, wm);
}

template<class G> void run_all(Toks &t, std::ostream &out, bool scaled = false) {
    int scale = scaled ? (int) t.next_ll() : 0;
    GCase<G> c; read_graph(t, c, scale);
    run_three(out, c, boost::get(boost::edge_weight, c.g));
}

// the caller's weights live in an EXTERNAL map; the interior edge_weight property holds decoys (the reversed order)
template<class G> void run_external(Toks &t, std::ostream &out) {
    typedef typename boost::graph_traits<G>::edge_descriptor Edge;
    typedef typename boost::property_traits<typename boost::property_map<G, boost::edge_weight_t>::type>::value_type W;
    GCase<G> c; read_graph(t, c);
    typedef std::map<Edge, W> Store;
    Store store; W mx = 0;
    for (size_t i = 0; i < c.edges.size(); i++) { store[c.edges[i]] = (W) c.iw[i]; mx = std::max(mx, (W) c.iw[i]); }
    for (size_t i = 0; i < c.edges.size(); i++) boost::put(boost::edge_weight, c.g, c.edges[i], mx + 1 - (W) c.iw[i]);
    boost::associative_property_map<Store> xm(store);
    run_three(out, c, xm);
}

int main() {
    return run_cases([](Toks &t, std::ostream &out) {
        std::string kind = t.next();
        if (kind == "A") run_all<DGraph>(t, out);
        else if (kind == "AI") run_all<IGraph>(t, out);
        else if (kind == "AL") run_all<LGraph>(t, out);
        else if (kind == "AX") run_external<DGraph>(t, out);
        else if (kind == "AS") run_all<DGraph>(t, out, true);
        else throw std::runtime_error("c14: bad kind " + kind);
    });
}
