// c01.cpp — the sequential exact entry points (mcb_sva_signed, mcb_sva_fvs_trees, mcb_sva_iso_trees) and the
// bidirectional signed search on the real code.
//   A <alg> <D|I|L> <scale> <graph>        alg = signed | fvs | iso ; D = double weights w*2^scale, I = int weights, L = long long weights (64-bit)
//        for fvs / iso the line ends with the oracles of the as-executed trees model (TreesFloatModel.v, exact tie of
//        tools/trees_common.py):  FVS = the sources of the builder's trees (the feedback vertex set actually used, in emission
//        order, or all vertices) and ORD = the arrangement std::sort leaves the builder's candidates in, as positions of the
//        builder's emission order.  Recovered by running the same builder and the same std::sort call as _mcb_sva_trees on the
//        same graph object, once before and once after the entry point; the two recoveries must agree (same number of
//        candidates, same sources, same arrangement), otherwise the case fails.
//   B <D|D:scale|I|L> <use_hidden> <s> <spos> <t> <tpos> <limit|-> <k signed ids> <k hidden ids> <graph>
//        D:<scale> = double weights w*2^scale (the limit is scaled the same way; the found weight is printed in the case's integer units)
#include "mcb_common.hpp"
#include <parmcb/parmcb_sva_signed.hpp>
#include <parmcb/parmcb_sva_trees.hpp>

// the builder of the entry point + the std::sort call of _mcb_sva_trees: (sources of the trees, arrangement of the candidates)
template<class G, class Builder> static std::pair<std::vector<size_t>, std::vector<size_t>> build_sorted(GCase<G> &c) {
    typedef typename boost::property_map<G, boost::edge_weight_t>::type WMap;
    WMap wm = boost::get(boost::edge_weight, c.g);
    std::vector<parmcb::SPTree<G, WMap>> trees; std::vector<parmcb::CandidateCycle<G, WMap>> cycles;
    Builder bld;
    bld(c.g, wm, trees, cycles);
    std::map<std::pair<size_t, size_t>, size_t> pos;          // (tree, edge id) -> position in the builder's output
    for (size_t i = 0; i < cycles.size(); i++) {
        auto key = std::make_pair((size_t) cycles[i].tree(), c.id(cycles[i].edge()));
        if (pos.count(key)) throw std::runtime_error("candidate emitted twice");
        pos[key] = i;
    }
    std::sort(cycles.begin(), cycles.end(), [](const auto &a, const auto &b) {
        return a.weight() < b.weight();
    });
    std::pair<std::vector<size_t>, std::vector<size_t>> r;
    for (auto &t : trees) r.first.push_back(t.source());
    for (auto &cc : cycles) r.second.push_back(pos.at(std::make_pair((size_t) cc.tree(), c.id(cc.edge()))));
    return r;
}

template<class G> static std::pair<std::vector<size_t>, std::vector<size_t>> trees_oracles(const std::string &alg, GCase<G> &c) {
    typedef typename boost::property_map<G, boost::edge_weight_t>::type WMap;
    if (alg == "fvs") return build_sorted<G, parmcb::detail::FVSCyclesBuilder<G, WMap>>(c);
    return build_sorted<G, parmcb::detail::ISOCyclesBuilder<G, WMap>>(c);
}

template<class G> void run_alg(const std::string &alg, Toks &t, int scale, std::ostream &out) {
    typedef typename boost::graph_traits<G>::edge_descriptor Edge;
    GCase<G> c; read_graph(t, c, scale);
    print_oracles(out, c);
    const bool tree_variant = alg == "fvs" || alg == "iso";
    std::pair<std::vector<size_t>, std::vector<size_t>> before;
    if (tree_variant) before = trees_oracles(alg, c);
    std::list<std::list<Edge>> cycles;
    auto wm = boost::get(boost::edge_weight, c.g);
    typename boost::property_traits<decltype(wm)>::value_type ret;
    if (alg == "signed") ret = parmcb::mcb_sva_signed(c.g, wm, std::back_inserter(cycles));
    else if (alg == "fvs") ret = parmcb::mcb_sva_fvs_trees(c.g, wm, std::back_inserter(cycles));
    else if (alg == "iso") ret = parmcb::mcb_sva_iso_trees(c.g, wm, std::back_inserter(cycles));
    else throw std::runtime_error("bad alg");
    out << " RET " << exact_weight(ret, scale);
    print_cycles(out, c, cycles);
    // the same call the way another caller may make it: the weights in an EXTERNAL property map (the interior edge_weight property holds decoys,
    // in reversed order) and the cycles written through a POSITIONAL output iterator into pre-sized storage.  The result may legitimately consist of
    // other equally light cycles, but the returned value, the number of cycles written and their weight under the caller's map must be the same.
    {
        typedef typename boost::property_traits<decltype(wm)>::value_type W;
        typedef std::map<Edge, W> Store;
        Store store; W mx = W();
        for (auto &e : c.edges) { store[e] = boost::get(wm, e); if (mx < store[e]) mx = store[e]; }
        for (auto &e : c.edges) boost::put(wm, e, mx + 1 - store[e]);                 // decoys (positive, order reversed)
        boost::associative_property_map<Store> xm(store);
        std::vector<std::list<Edge>> slots(cycles.size() + 2);
        W ret2;
        try {
            if (alg == "signed") ret2 = parmcb::mcb_sva_signed(c.g, xm, slots.begin());
            else if (alg == "fvs") ret2 = parmcb::mcb_sva_fvs_trees(c.g, xm, slots.begin());
            else ret2 = parmcb::mcb_sva_iso_trees(c.g, xm, slots.begin());
        } catch (...) { for (auto &e : c.edges) boost::put(wm, e, store[e]); throw; }
        for (auto &e : c.edges) boost::put(wm, e, store[e]);                          // restore the interior property
        size_t written = 0; W tot = W();
        for (size_t i = 0; i < slots.size(); i++) {
            if (slots[i].empty()) continue;
            if (i != written) throw std::runtime_error("external weight map + positional output iterator: slot " + std::to_string(i) + " written, slot " + std::to_string(written) + " left empty");
            written++;
            for (auto &e : slots[i]) { if (c.id(e) == (size_t) -1) throw std::runtime_error("external weight map + positional output iterator: a returned edge is not an edge of the caller's graph"); tot = tot + store[e]; }
        }
        if (written != cycles.size()) throw std::runtime_error("external weight map + positional output iterator: " + std::to_string(written) + " cycles written, " + std::to_string(cycles.size()) + " through back_inserter with the interior map");
        if (!(ret2 == ret)) throw std::runtime_error("external weight map + positional output iterator: returned value " + exact_weight(ret2, scale) + " differs from " + exact_weight(ret, scale) + " (interior map, back_inserter)");
        if (!(tot == ret2)) throw std::runtime_error("external weight map + positional output iterator: the written cycles weigh " + exact_weight(tot, scale) + " under the caller's map, returned " + exact_weight(ret2, scale));
    }
    if (tree_variant) {
        auto after = trees_oracles(alg, c);
        if (after.second.size() != before.second.size()) throw std::runtime_error("re-run of the builder yields a different number of candidates");
        if (after != before) throw std::runtime_error("re-run of the builder and std::sort yields a different arrangement");
        out << " FVS";
        for (auto v : after.first) out << " " << v;
        out << " ORD";
        for (auto i : after.second) out << " " << i;
    }
}

static double scaled_limit(double, long long v, int scale) { return std::ldexp((double) v, scale); }
static int scaled_limit(int, long long v, int) { return (int) v; }
static long long scaled_limit(long long, long long v, int) { return v; }

template<class G> void run_bidir(Toks &t, std::ostream &out, int scale = 0) {
    typedef typename boost::graph_traits<G>::edge_descriptor Edge;
    typedef typename boost::property_traits<typename boost::property_map<G, boost::edge_weight_t>::type>::value_type W;
    bool use_hidden = t.next_sz() != 0;
    size_t s = t.next_sz(); bool spos = t.next_sz() != 0; size_t tg = t.next_sz(); bool tpos = t.next_sz() != 0;
    std::string lim = t.next();
    auto sg = t.next_szlist(); auto hd = t.next_szlist();
    GCase<G> c; read_graph(t, c, scale);
    std::set<Edge> signed_edges, hidden;
    for (auto i : sg) signed_edges.insert(c.edges.at(i));
    for (auto i : hd) hidden.insert(c.edges.at(i));
    bool use_limit = lim != "-";
    W limit = use_limit ? scaled_limit(W(), std::stoll(lim), scale) : W();
    auto res = parmcb::bidirectional_signed_dijkstra(c.g, boost::get(boost::edge_weight, c.g), signed_edges, hidden, use_hidden,
                                                     s, spos, tg, tpos, use_limit, limit);
    if (!std::get<2>(res)) { out << "NF"; return; }
    out << "F " << exact_weight(std::get<1>(res), scale) << " " << std::get<0>(res).size();
    std::vector<size_t> ids; for (auto &e : std::get<0>(res)) ids.push_back(c.id(e));
    std::sort(ids.begin(), ids.end());
    for (auto i : ids) out << " " << i;
}

int main() {
    return run_cases([](Toks &t, std::ostream &out) {
        std::string kind = t.next();
        if (kind == "A") {
            std::string alg = t.next(), ty = t.next(); int scale = (int) t.next_ll();
            if (ty == "D") run_alg<DGraph>(alg, t, scale, out); else if (ty == "L") run_alg<LGraph>(alg, t, 0, out); else run_alg<IGraph>(alg, t, 0, out);
        } else if (kind == "B") {
            std::string ty = t.next();
            if (ty.compare(0, 2, "D:") == 0) run_bidir<DGraph>(t, out, std::stoi(ty.substr(2)));
            else if (ty == "D") run_bidir<DGraph>(t, out); else if (ty == "L") run_bidir<LGraph>(t, out); else run_bidir<IGraph>(t, out);
        } else throw std::runtime_error("bad kind");
    });
}
