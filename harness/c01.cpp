// c01.cpp — the sequential exact entry points (mcb_sva_signed, mcb_sva_fvs_trees, mcb_sva_iso_trees) and the
// bidirectional signed search on the real code.
//   A <alg> <D|I> <scale> <graph>          alg = signed | fvs | iso ; D = double weights w*2^scale, I = int weights
//   B <D|I> <use_hidden> <s> <spos> <t> <tpos> <limit|-> <k signed ids> <k hidden ids> <graph>
#include "mcb_common.hpp"
#include <parmcb/parmcb_sva_signed.hpp>
#include <parmcb/parmcb_sva_trees.hpp>

template<class G> void run_alg(const std::string &alg, Toks &t, int scale, std::ostream &out) {
    typedef typename boost::graph_traits<G>::edge_descriptor Edge;
    GCase<G> c; read_graph(t, c, scale);
    print_oracles(out, c);
    std::list<std::list<Edge>> cycles;
    auto wm = boost::get(boost::edge_weight, c.g);
    typename boost::property_traits<decltype(wm)>::value_type ret;
    if (alg == "signed") ret = parmcb::mcb_sva_signed(c.g, wm, std::back_inserter(cycles));
    else if (alg == "fvs") ret = parmcb::mcb_sva_fvs_trees(c.g, wm, std::back_inserter(cycles));
    else if (alg == "iso") ret = parmcb::mcb_sva_iso_trees(c.g, wm, std::back_inserter(cycles));
    else throw std::runtime_error("bad alg");
    out << " RET " << exact_weight(ret, scale);
    print_cycles(out, c, cycles);
}

template<class G> void run_bidir(Toks &t, std::ostream &out) {
    typedef typename boost::graph_traits<G>::edge_descriptor Edge;
    typedef typename boost::property_traits<typename boost::property_map<G, boost::edge_weight_t>::type>::value_type W;
    bool use_hidden = t.next_sz() != 0;
    size_t s = t.next_sz(); bool spos = t.next_sz() != 0; size_t tg = t.next_sz(); bool tpos = t.next_sz() != 0;
    std::string lim = t.next();
    auto sg = t.next_szlist(); auto hd = t.next_szlist();
    GCase<G> c; read_graph(t, c, 0);
    std::set<Edge> signed_edges, hidden;
    for (auto i : sg) signed_edges.insert(c.edges.at(i));
    for (auto i : hd) hidden.insert(c.edges.at(i));
    bool use_limit = lim != "-";
    W limit = use_limit ? (W) std::stoll(lim) : W();
    auto res = parmcb::bidirectional_signed_dijkstra(c.g, boost::get(boost::edge_weight, c.g), signed_edges, hidden, use_hidden,
                                                     s, spos, tg, tpos, use_limit, limit);
    if (!std::get<2>(res)) { out << "NF"; return; }
    out << "F " << exact_weight(std::get<1>(res), 0) << " " << std::get<0>(res).size();
    std::vector<size_t> ids; for (auto &e : std::get<0>(res)) ids.push_back(c.id(e));
    std::sort(ids.begin(), ids.end());
    for (auto i : ids) out << " " << i;
}

int main() {
    return run_cases([](Toks &t, std::ostream &out) {
        std::string kind = t.next();
        if (kind == "A") {
            std::string alg = t.next(), ty = t.next(); int scale = (int) t.next_ll();
            if (ty == "D") run_alg<DGraph>(alg, t, scale, out); else run_alg<IGraph>(alg, t, 0, out);
        } else if (kind == "B") {
            std::string ty = t.next();
            if (ty == "D") run_bidir<DGraph>(t, out); else run_bidir<IGraph>(t, out);
        } else throw std::runtime_error("bad kind");
    });
}
