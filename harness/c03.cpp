// c03.cpp — the TBB-parallel entry points of parmcb, compiled UNCHANGED against the controllable fake TBB
// (harness/shim/tbb, build_cpp(..., shim=True)) and executed under the schedule given in the case.
//   T <alg> [k] <D|I|L> <scale> <nbits> <bitstring|-> <graph>
//   X <alg> [k] <D|I|L> <scale> <nbits> <bitstring|-> <nperm> <perm...> <trace 0|1> <graph>
//   G <alg> [k] <D|I|L> <scale> <nbits> <bitstring|-> <graph>       as T, without the ROOTS / EORD oracles (graphs with tens of thousands of
//                                                                   vertices, judged against the property text only; EORD costs O(m^2) here)
//       alg = signed_tbb | fvs_tbb | iso_tbb | approx_signed_tbb k | approx_fvs_tbb k | approx_iso_tbb k
//       D = double weights w*2^scale, I = int weights, L = long long weights (64-bit integers, values above 2^53 included), U = unsigned long weights;
//       bitstring = nbits characters 0/1 = verif_sched::bits
//       perm = explicit insertion order of the concurrently pushed elements (verif_sched.h; empty = execution order)
//   prints  ROOTS .. EORD .. RET w N n CYC (len ids)* SCHED pos splits forks seqs rfirst chunks fors reduces pushes permused
//           [SEQRET w SEQN n SEQW sorted weights of the cycles of the sequential approximate entry point]
//           [TRACE <f|r><len>:<tree code> ...]      (trace = 1: one entry per parallel construct, in program order)
#ifndef VERIF_FAKE_TBB
#include <tbb/tbb.h>
#endif
#ifndef VERIF_FAKE_TBB
#error "c03.cpp must be compiled against harness/shim (lib.build_cpp(..., shim=True))"
#endif
#include "mcb_common.hpp"
#include <parmcb/parmcb_sva_signed_tbb.hpp>
#include <parmcb/parmcb_sva_trees.hpp>
#include <parmcb/parmcb_approx_sva_signed.hpp>
#include <parmcb/parmcb_approx_sva_trees.hpp>
#include <parmcb/parmcb_approx_sva_signed_tbb.hpp>
#include <parmcb/parmcb_approx_sva_trees_tbb.hpp>

static std::vector<bool> read_bits(Toks &t) {
    size_t nb = t.next_sz(); std::string s = t.next();
    std::vector<bool> b;
    if (s != "-") for (char ch : s) { if (ch != '0' && ch != '1') throw std::runtime_error("bad bit"); b.push_back(ch == '1'); }
    if (b.size() != nb) throw std::runtime_error("bit count mismatch");
    return b;
}

template<class G> void run_alg(const std::string &alg, size_t k, const std::vector<bool> &bits, const std::vector<size_t> &perm, bool trace,
                               Toks &t, int scale, std::ostream &out, bool oracles = true) {
    typedef typename boost::graph_traits<G>::edge_descriptor Edge;
    GCase<G> c; read_graph(t, c, scale);
    if (oracles) print_oracles(out, c); else out << "ROOTS EORD";
    std::list<std::list<Edge>> cycles, seqcycles;
    auto wm = boost::get(boost::edge_weight, c.g);
    typedef typename boost::property_traits<decltype(wm)>::value_type W;
    W ret = W(), seqret = W(); bool approx = false;
    verif_sched::reset(bits, perm, trace);
    if (alg == "signed_tbb") ret = parmcb::mcb_sva_signed_tbb(c.g, wm, std::back_inserter(cycles));
    else if (alg == "fvs_tbb") ret = parmcb::mcb_sva_fvs_trees_tbb(c.g, wm, std::back_inserter(cycles));
    else if (alg == "iso_tbb") ret = parmcb::mcb_sva_iso_trees_tbb(c.g, wm, std::back_inserter(cycles));
    else if (alg == "approx_signed_tbb") { approx = true; ret = parmcb::approx_mcb_sva_signed_tbb(c.g, wm, k, std::back_inserter(cycles)); }
    else if (alg == "approx_fvs_tbb") { approx = true; ret = parmcb::approx_mcb_sva_fvs_trees_tbb(c.g, wm, k, std::back_inserter(cycles)); }
    else if (alg == "approx_iso_tbb") { approx = true; ret = parmcb::approx_mcb_sva_iso_trees_tbb(c.g, wm, k, std::back_inserter(cycles)); }
    else throw std::runtime_error("bad alg");
    verif_sched::State st = verif_sched::state();
    out << " RET " << exact_weight(ret, scale);
    print_cycles(out, c, cycles);
    out << " SCHED " << st.pos << " " << st.n_split << " " << st.n_fork << " " << st.n_seq << " " << st.n_rfirst << " " << st.n_chunks
        << " " << st.n_for << " " << st.n_reduce << " " << st.n_push << " " << (st.perm_applied ? 1 : 0);
    if (oracles) {
        // the same call the way another caller may make it (as in c01.cpp): weights in an EXTERNAL associative property map (the interior edge_weight
        // property holds decoys in reversed order), cycles through a POSITIONAL output iterator into pre-sized storage, same schedule.  The same
        // schedule and the same weights give the same run: returned value and number of cycles must agree, the written cycles must be made of the
        // caller's edges and weigh the returned value under the caller's map.
        typedef std::map<Edge, W> Store;
        Store store; W mx = W();
        for (auto &e : c.edges) { store[e] = boost::get(wm, e); if (mx < store[e]) mx = store[e]; }
        // (the approximate entry points cannot be instantiated with a map type other than the graph's interior one -- the exact algorithm they
        //  delegate to is declared on the caller's map type but called with the spanner's interior map -- so for them only the iterator differs)
        if (!approx) for (auto &e : c.edges) boost::put(wm, e, mx + 1 - store[e]);
        boost::associative_property_map<Store> xm(store);
        std::vector<std::list<Edge>> slots(cycles.size() + 2);
        W ret2 = W();
        verif_sched::reset(bits, perm, false);
        try {
            if (alg == "signed_tbb") ret2 = parmcb::mcb_sva_signed_tbb(c.g, xm, slots.begin());
            else if (alg == "fvs_tbb") ret2 = parmcb::mcb_sva_fvs_trees_tbb(c.g, xm, slots.begin());
            else if (alg == "iso_tbb") ret2 = parmcb::mcb_sva_iso_trees_tbb(c.g, xm, slots.begin());
            else if (alg == "approx_signed_tbb") ret2 = parmcb::approx_mcb_sva_signed_tbb(c.g, wm, k, slots.begin());
            else if (alg == "approx_fvs_tbb") ret2 = parmcb::approx_mcb_sva_fvs_trees_tbb(c.g, wm, k, slots.begin());
            else ret2 = parmcb::approx_mcb_sva_iso_trees_tbb(c.g, wm, k, slots.begin());
        } catch (...) { for (auto &e : c.edges) boost::put(wm, e, store[e]); throw; }
        for (auto &e : c.edges) boost::put(wm, e, store[e]);
        const std::string what = "external weight map + positional output iterator: ";
        size_t written = 0; W tot = W();
        for (size_t i = 0; i < slots.size(); i++) {
            if (slots[i].empty()) continue;
            if (i != written) throw std::runtime_error(what + "slot " + std::to_string(i) + " written, slot " + std::to_string(written) + " left empty");
            written++;
            for (auto &e : slots[i]) { if (c.id(e) == (size_t) -1) throw std::runtime_error(what + "a returned edge is not an edge of the caller's graph"); tot = tot + store[e]; }
        }
        if (written != cycles.size()) throw std::runtime_error(what + std::to_string(written) + " cycles written, " + std::to_string(cycles.size()) + " through back_inserter with the interior map");
        if (!(ret2 == ret)) throw std::runtime_error(what + "returned value " + exact_weight(ret2, scale) + " differs from " + exact_weight(ret, scale) + " (interior map, back_inserter, same schedule)");
        if (!(tot == ret2)) throw std::runtime_error(what + "the written cycles weigh " + exact_weight(tot, scale) + " under the caller's map, returned " + exact_weight(ret2, scale));
    }
    if (approx) {      // the sequential counterpart on the same graph (no parallel construct is reached)
        verif_sched::reset(std::vector<bool>());
        if (alg == "approx_signed_tbb") seqret = parmcb::approx_mcb_sva_signed(c.g, wm, k, std::back_inserter(seqcycles));
        else if (alg == "approx_fvs_tbb") seqret = parmcb::approx_mcb_sva_fvs_trees(c.g, wm, k, std::back_inserter(seqcycles));
        else seqret = parmcb::approx_mcb_sva_iso_trees(c.g, wm, k, std::back_inserter(seqcycles));
        if (verif_sched::state().pos != 0 || verif_sched::state().n_for + verif_sched::state().n_reduce != 0)
            throw std::runtime_error("sequential entry point reached a parallel construct");
        out << " SEQRET " << exact_weight(seqret, scale) << " SEQN " << seqcycles.size() << " SEQW";
        std::vector<W> ws;
        for (auto &cy : seqcycles) { W s = W(); for (auto &e : cy) if (c.id(e) != (size_t) -1) s += boost::get(wm, e); ws.push_back(s); }
        std::sort(ws.begin(), ws.end());
        for (auto w : ws) out << " " << exact_weight(w, scale);
    }
    if (trace) { out << " TRACE"; for (auto &x : st.trace) out << " " << x; }
}

int main() {
    return run_cases([](Toks &t, std::ostream &out) {
        std::string kind = t.next();
        if (kind != "T" && kind != "X" && kind != "G") throw std::runtime_error("bad kind");
        std::string alg = t.next();
        size_t k = 0;
        if (alg.compare(0, 7, "approx_") == 0) k = t.next_sz();
        std::string ty = t.next(); int scale = (int) t.next_ll();
        std::vector<bool> bits = read_bits(t);
        std::vector<size_t> perm; bool trace = false;
        if (kind == "X") { perm = t.next_szlist(); trace = t.next_sz() != 0; }
        const bool oracles = kind != "G";
        if (ty == "D") run_alg<DGraph>(alg, k, bits, perm, trace, t, scale, out, oracles);
        else if (ty == "L") run_alg<LGraph>(alg, k, bits, perm, trace, t, 0, out, oracles);
        else if (ty == "I") run_alg<IGraph>(alg, k, bits, perm, trace, t, 0, out, oracles);
        else if (ty == "U") run_alg<UGraph>(alg, k, bits, perm, trace, t, 0, out, oracles);
        else throw std::runtime_error("bad weight type");
    });
}
