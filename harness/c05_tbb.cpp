// c05_tbb.cpp — the TBB-parallel approximate entry points on the real code, compiled UNCHANGED against the controllable
// fake TBB (harness/shim/tbb, lib.build_cpp(..., shim=True)) and executed under the schedule given in the case (C05 / C06,
// theorems Properties_C03_approx.v; model ApproxParModel.approx_run_tbb).
//   P <alg> <D|I|L> <scale> <k> <nbits> <bitstring|-> <perm1> <permc> <permw> <trace 0|1> <graph>
//       alg = signed | fvs | iso      (approx_mcb_sva_signed_tbb | approx_mcb_sva_fvs_trees_tbb | approx_mcb_sva_iso_trees_tbb)
//       bitstring = verif_sched::bits; perm1 / permc / permw = lists "n x1 .. xn":
//         perm1 = explicit insertion order handed to the shim at reset (reaches the exact phase's concurrently pushed supports),
//         permc / permw = explicit insertion orders of the builder's two concurrent_vectors `cycles` and `cycles_weights`
//                         (may differ from each other: the two push_back calls are separate; an invalid one is ignored)
//   prints  <PUB answer> PUBSCHED <pos> <forks> <permused>
//           DIR SPR <retained ids> SPD <dropped ids> ROOTS .. EORD .. [FVS <greedy_fvs on the spanner>] POS1 <pos after exact phase>
//           <DIR answer> SCHED pos splits forks seqs rfirst chunks fors reduces pushes
//           SEQ <answer of the sequential entry point>  [TRACE ..]
//       PUB = the public entry point under (bits, perm1) — the shim's own protocol: ONE permutation, applied to the first
//             outermost parallel_for that pushed exactly |perm1| elements (to both containers alike).
//       DIR = the same two statements the entry point consists of (construct BaseApproxSpannerAlgorithm<.., ExactAlgo, true>,
//             call run) executed on an object we keep so that ITS spanner and the oracles of the spanner graph can be read
//             through the PARMCB_VERIF accessors; ExactAlgo = the library's own functor wrapped by a hook that, when the
//             exact phase has returned, records the stream position and installs permc / permw for the builder.
//       answer = THROW runtime_error EMITTED <n>   |   RET <w> N <n> CYC <len> <ids> ...   (cycles IN EMISSION ORDER)
// The two insertion orders are driven apart without touching the shim: tbb::concurrent_vector<double> / <int> / <long long> (used by
// parmcb for `cycles_weights` only) is explicitly specialised here as a copy of the shim's container whose rearrangement
// callback takes its permutation from this harness (verif_c05::wperm) instead of the shim's single push_perm.
#ifndef VERIF_FAKE_TBB
#include <tbb/tbb.h>
#endif
#ifndef VERIF_FAKE_TBB
#error "c05_tbb.cpp must be compiled against harness/shim (lib.build_cpp(..., shim=True))"
#endif
#include <deque>

namespace verif_c05 {
    struct WPerm { bool active = false; std::vector<std::size_t> perm; };
    inline WPerm& wperm() { static WPerm w; return w; }

    // stands in for tbb::concurrent_vector<T> of the shim (same behaviour: std::deque, push_back appends in execution
    // order, middle-splitting range_type) except for the source of the explicit insertion order
    template<typename T>
    class weights_vector {
        typedef std::deque<T> rep_t;
    public:
        typedef T value_type;
        typedef std::size_t size_type;
        typedef T& reference;
        typedef const T& const_reference;
        typedef typename rep_t::iterator iterator;
        typedef typename rep_t::const_iterator const_iterator;
        class range_type : public tbb::blocked_range<iterator> {
        public:
            typedef T value_type;
            typedef T& reference;
            typedef const T& const_reference;
            typedef std::ptrdiff_t difference_type;
            range_type(iterator b, iterator e, std::size_t grainsize_ = 1) : tbb::blocked_range<iterator>(b, e, grainsize_) { }
            range_type(range_type &r, tbb::split) : tbb::blocked_range<iterator>(r, tbb::split()) { }
        };
        weights_vector() { }
        iterator push_back(const T &x) { note_push(); rep.push_back(x); return rep.end() - 1; }
        reference operator[](size_type i) { return rep[i]; }
        const_reference operator[](size_type i) const { return rep[i]; }
        reference at(size_type i) { return rep.at(i); }
        size_type size() const { return rep.size(); }
        bool empty() const { return rep.empty(); }
        iterator begin() { return rep.begin(); }
        iterator end() { return rep.end(); }
        const_iterator begin() const { return rep.begin(); }
        const_iterator end() const { return rep.end(); }
        range_type range(size_type grainsize = 1) { return range_type(begin(), end(), grainsize); }
    private:
        rep_t rep;
        void note_push() {
            verif_sched::State &st = verif_sched::state();
            st.n_push++;
            if (st.depth == 0 || st.push_perm.empty() || st.perm_applied) return;
            for (auto &d : st.dirty) if (d.vec == (const void*) this) return;
            verif_sched::State::Dirty d;
            d.vec = this; d.first = rep.size();
            d.size = [this]() { return rep.size(); };
            d.permute = [this](std::size_t first, const std::vector<std::size_t> &perm) {
                const std::vector<std::size_t> *p = &perm;
                if (wperm().active) {
                    if (!verif_sched::valid_perm(wperm().perm, rep.size() - first)) return;     // an invalid order is ignored
                    p = &wperm().perm;
                }
                std::vector<T> old(rep.begin() + first, rep.end());
                for (std::size_t j = 0; j < p->size(); j++) rep[first + j] = old[(*p)[j]];
            };
            st.dirty.push_back(d);
        }
    };
}
namespace tbb {
    template<> class concurrent_vector<double, std::allocator<double>> : public verif_c05::weights_vector<double> { };
    template<> class concurrent_vector<int, std::allocator<int>> : public verif_c05::weights_vector<int> { };
    template<> class concurrent_vector<long long, std::allocator<long long>> : public verif_c05::weights_vector<long long> { };
}

#include "mcb_common.hpp"
#include <parmcb/detail/fvs.hpp>
#include <parmcb/parmcb_approx_sva_signed.hpp>
#include <parmcb/parmcb_approx_sva_trees.hpp>
#include <parmcb/parmcb_approx_sva_signed_tbb.hpp>
#include <parmcb/parmcb_approx_sva_trees_tbb.hpp>

namespace verif_c05 {
    struct Hook { std::vector<std::size_t> permc, permw; std::size_t ndropped = 0, pos1 = 0; bool called = false; };
    inline Hook& hook() { static Hook h; return h; }
    // the exact phase has returned: record the stream position, install the builder's insertion orders
    inline void after_exact() {
        Hook &h = hook();
        verif_sched::State &st = verif_sched::state();
        h.pos1 = st.pos; h.called = true;
        std::size_t m = h.ndropped;
        std::vector<std::size_t> pc = h.permc;
        if (!verif_sched::valid_perm(pc, m)) { pc.clear(); for (std::size_t i = 0; i < m; i++) pc.push_back(i); }   // invalid = ignored = identity
        st.push_perm = pc; st.perm_applied = false; st.dirty.clear();
        wperm().active = true; wperm().perm = h.permw;
    }
    template<class Inner> struct HookExact {
        template<class G, class WMap, class Out>
        typename boost::property_traits<WMap>::value_type operator()(const G &g, const WMap &w, Out out) {
            Inner inner;
            auto r = inner(g, w, out);
            after_exact();
            return r;
        }
    };
}

static std::vector<bool> read_bits(Toks &t) {
    size_t nb = t.next_sz(); std::string s = t.next();
    std::vector<bool> b;
    if (s != "-") for (char ch : s) { if (ch != '0' && ch != '1') throw std::runtime_error("bad bit"); b.push_back(ch == '1'); }
    if (b.size() != nb) throw std::runtime_error("bit count mismatch");
    return b;
}

template<class G> std::vector<size_t> roots_of(const G &g) {
    typedef typename boost::graph_traits<G>::edge_descriptor Edge;
    size_t n = boost::num_vertices(g);
    std::vector<Edge> emitted;
    parmcb::detail::spanning_forest(g, std::back_inserter(emitted));
    std::vector<bool> seen(n, false); std::vector<size_t> roots;
    for (auto &e : emitted) {
        size_t s = boost::source(e, g), tg = boost::target(e, g);
        if (!seen[s]) { roots.push_back(s); seen[s] = true; }
        seen[tg] = true;
    }
    for (size_t v = 0; v < n; v++) roots.push_back(v);
    return roots;
}

struct Case { std::string alg; size_t k; std::vector<bool> bits; std::vector<size_t> perm1, permc, permw; bool trace; };

template<class G, class Exact, class WMap>
void run_direct(GCase<G> &c, const WMap &wm, const Case &cs, int scale, std::ostream &out) {
    typedef typename boost::graph_traits<G>::edge_descriptor Edge;
    typedef typename boost::graph_traits<G>::vertex_descriptor Vertex;
    auto index_map = boost::get(boost::vertex_index, c.g);
    verif_sched::reset(std::vector<bool>());
    verif_c05::wperm() = verif_c05::WPerm();
    parmcb::detail::BaseApproxSpannerAlgorithm<G, WMap, verif_c05::HookExact<Exact>, true> algo(c.g, wm, index_map, cs.k);
    if (verif_sched::state().pos != 0 || verif_sched::state().n_for + verif_sched::state().n_reduce != 0)
        throw std::logic_error("the constructor reached a parallel construct");
    const G &sp = algo.verif_spanner();
    const auto &tr = algo.verif_edge_spanner_to_g();
    std::vector<Edge> sedges;
    for (auto ep = boost::edges(sp); ep.first != ep.second; ++ep.first) sedges.push_back(*ep.first);
    out << " DIR SPR";
    for (auto &se : sedges) { auto it = tr.find(se); out << " " << (it == tr.end() ? std::string("?") : std::to_string(c.id(it->second))); }
    out << " SPD";
    for (auto &e : algo.verif_non_spanner_edges()) out << " " << c.id(e);
    out << " ROOTS";
    for (auto r : roots_of(sp)) out << " " << r;
    out << " EORD";
    {
        std::set<Edge> s(sedges.begin(), sedges.end());
        std::vector<size_t> rank(sedges.size(), 0); size_t r = 0;
        for (auto &e : s) { for (size_t i = 0; i < sedges.size(); i++) if (sedges[i] == e) rank[i] = r; r++; }
        for (auto x : rank) out << " " << x;
    }
    if (cs.alg == "fvs") {
        std::vector<Vertex> fvs;
        parmcb::greedy_fvs(sp, std::back_inserter(fvs));
        out << " FVS";
        for (auto v : fvs) out << " " << v;
    }
    verif_c05::Hook &h = verif_c05::hook();
    h = verif_c05::Hook();
    h.permc = cs.permc; h.permw = cs.permw; h.ndropped = algo.verif_non_spanner_edges().size();
    verif_sched::reset(cs.bits, cs.perm1, cs.trace);
    std::list<std::list<Edge>> cycles;
    typename boost::property_traits<WMap>::value_type ret;
    bool thrown = false;
    try {
        ret = algo.run(std::back_inserter(cycles));
    } catch (const std::runtime_error &e) {
        thrown = true;
    }
    verif_sched::State st = verif_sched::state();
    verif_c05::wperm() = verif_c05::WPerm();
    out << " POS1 " << (h.called ? h.pos1 : 0);
    if (thrown) out << " THROW runtime_error EMITTED " << cycles.size();
    else { out << " RET " << exact_weight(ret, scale); print_cycles(out, c, cycles); }
    out << " SCHED " << st.pos << " " << st.n_split << " " << st.n_fork << " " << st.n_seq << " " << st.n_rfirst << " " << st.n_chunks
        << " " << st.n_for << " " << st.n_reduce << " " << st.n_push;
    // the sequential entry point on the same graph (no parallel construct may be reached)
    {
        verif_sched::reset(std::vector<bool>());
        std::list<std::list<Edge>> seqcycles;
        typename boost::property_traits<WMap>::value_type seqret;
        out << " SEQ";
        try {
            if (cs.alg == "signed") seqret = parmcb::approx_mcb_sva_signed(c.g, wm, cs.k, std::back_inserter(seqcycles));
            else if (cs.alg == "fvs") seqret = parmcb::approx_mcb_sva_fvs_trees(c.g, wm, cs.k, std::back_inserter(seqcycles));
            else seqret = parmcb::approx_mcb_sva_iso_trees(c.g, wm, cs.k, std::back_inserter(seqcycles));
            out << " RET " << exact_weight(seqret, scale);
            print_cycles(out, c, seqcycles);
        } catch (const std::runtime_error &e) {
            out << " THROW runtime_error EMITTED " << seqcycles.size();
        }
        if (verif_sched::state().pos != 0 || verif_sched::state().n_for + verif_sched::state().n_reduce != 0)
            throw std::logic_error("sequential entry point reached a parallel construct");
    }
    if (cs.trace) { out << " TRACE"; for (auto &x : st.trace) out << " " << x; }
}

template<class G> void run_alg(const Case &cs, Toks &t, int scale, std::ostream &out) {
    typedef typename boost::graph_traits<G>::edge_descriptor Edge;
    typedef std::back_insert_iterator<std::list<std::list<Edge>>> OutIt;
    GCase<G> c; read_graph(t, c, scale);
    auto wm = boost::get(boost::edge_weight, c.g);
    typedef decltype(wm) WMap;
    {
        std::list<std::list<Edge>> cycles;
        typename boost::property_traits<WMap>::value_type ret;
        verif_c05::wperm() = verif_c05::WPerm();
        verif_sched::reset(cs.bits, cs.perm1, false);
        try {
            if (cs.alg == "signed") ret = parmcb::approx_mcb_sva_signed_tbb(c.g, wm, cs.k, std::back_inserter(cycles));
            else if (cs.alg == "fvs") ret = parmcb::approx_mcb_sva_fvs_trees_tbb(c.g, wm, cs.k, std::back_inserter(cycles));
            else if (cs.alg == "iso") ret = parmcb::approx_mcb_sva_iso_trees_tbb(c.g, wm, cs.k, std::back_inserter(cycles));
            else throw std::logic_error("bad alg");
            out << "RET " << exact_weight(ret, scale);
            print_cycles(out, c, cycles);
        } catch (const std::runtime_error &e) {
            out << "THROW runtime_error EMITTED " << cycles.size();
        }
        verif_sched::State st = verif_sched::state();
        out << " PUBSCHED " << st.pos << " " << st.n_fork << " " << (st.perm_applied ? 1 : 0);
    }
    if (cs.alg == "signed") run_direct<G, parmcb::detail::mcb_sva_signed_tbb<G, WMap, OutIt>>(c, wm, cs, scale, out);
    else if (cs.alg == "fvs") run_direct<G, parmcb::detail::mcb_sva_fvs_trees_tbb<G, WMap, OutIt>>(c, wm, cs, scale, out);
    else run_direct<G, parmcb::detail::mcb_sva_iso_trees_tbb<G, WMap, OutIt>>(c, wm, cs, scale, out);
}

int main() {
    return run_cases([](Toks &t, std::ostream &out) {
        std::string kind = t.next();
        if (kind != "P") throw std::logic_error("bad kind");
        Case cs;
        cs.alg = t.next(); std::string ty = t.next(); int scale = (int) t.next_ll();
        cs.k = t.next_sz();
        cs.bits = read_bits(t);
        cs.perm1 = t.next_szlist(); cs.permc = t.next_szlist(); cs.permw = t.next_szlist();
        cs.trace = t.next_sz() != 0;
        if (ty == "D") run_alg<DGraph>(cs, t, scale, out);
        else if (ty == "L") run_alg<LGraph>(cs, t, 0, out);          // long long weights (64-bit integers, values above 2^53 included)
        else if (ty == "I") run_alg<IGraph>(cs, t, 0, out);
        else throw std::logic_error("bad weight type");
    });
}
