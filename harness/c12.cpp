// c12.cpp — the real parmcb::SPTree (lex_dijkstra + tree construction + first-in-path labels), printed per vertex.
// case:  T s <graph>   one tree, double weights, constructed directly
//        TV s <graph>  the tree of source s taken out of the std::vector<SPTree> that HortonCyclesBuilder's loop builds
//        I s <graph>   one tree, int weights
//        L s <graph>   one tree, long long weights (64-bit: values above 2^53)
//        ALL <graph>   trees of all sources (built with emplace_back into a vector, as the algorithms do), double weights
//        ALLI <graph>  same, int weights
//        ALLL <graph>  same, long long weights
//        U s <graph> / ALLU <graph>   unsigned long weights (an unsigned DistanceType: differences of distances wrap around)
//        TS scale s <graph> / ALLS scale <graph>   double weights w * 2^scale (tiny / huge magnitudes, exact); distances are printed in the
//                      case's units (unscaled), so the answer must equal that of T s <graph> / ALL <graph>
// output: "T" then, for every vertex, " | node dist pred_edge_id parent first" ("0 - - - first" without node;
//         the root has pred = parent = -1); ALL: "ALL" then " ; " + tree for every source.
#include "graph.hpp"
#include <parmcb/sptrees.hpp>

template<class G> void print_tree(std::ostream &out, GCase<G> &c, parmcb::SPTree<G, typename boost::property_map<G, boost::edge_weight_t>::type> &tree) {
    out << "T";
    for (auto vp = boost::vertices(c.g); vp.first != vp.second; ++vp.first) {
        auto v = *vp.first;
        out << " | ";
        auto nd = tree.node(v);
        if (nd == nullptr) out << "0 - - -";
        else {
            out << "1 " << exact_weight(nd->weight(), c.scale);
            if (!nd->has_pred()) out << " -1 -1";
            else out << " " << c.id(nd->pred()) << " " << boost::opposite(nd->pred(), v, c.g);
        }
        out << " " << tree.first(v);
    }
}

template<class G> void run_one(Toks &t, std::ostream &out, bool through_vector, bool scaled = false) {
    typedef typename boost::property_map<G, boost::edge_weight_t>::type WMap;
    int scale = scaled ? (int) t.next_ll() : 0;
    size_t s = t.next_sz();
    GCase<G> c; read_graph(t, c, scale);
    WMap wm = boost::get(boost::edge_weight, c.g);
    auto im = boost::get(boost::vertex_index, c.g);
    if (s >= boost::num_vertices(c.g)) { out << "IMPL-EXCEPTION source out of range"; return; }
    if (!through_vector) {
        parmcb::SPTree<G, WMap> tree(0, c.g, im, wm, s);
        print_tree(out, c, tree);
    } else {
        std::vector<parmcb::SPTree<G, WMap>> trees;
        for (auto vp = boost::vertices(c.g); vp.first != vp.second; ++vp.first)
            trees.emplace_back(trees.size(), c.g, im, wm, *vp.first);
        print_tree(out, c, trees[s]);
    }
}

template<class G> void run_all(Toks &t, std::ostream &out, bool scaled = false) {
    typedef typename boost::property_map<G, boost::edge_weight_t>::type WMap;
    int scale = scaled ? (int) t.next_ll() : 0;
    GCase<G> c; read_graph(t, c, scale);
    WMap wm = boost::get(boost::edge_weight, c.g);
    auto im = boost::get(boost::vertex_index, c.g);
    std::vector<parmcb::SPTree<G, WMap>> trees;
    for (auto vp = boost::vertices(c.g); vp.first != vp.second; ++vp.first)
        trees.emplace_back(trees.size(), c.g, im, wm, *vp.first);
    out << "ALL";
    for (auto &tree : trees) { out << " ; "; print_tree(out, c, tree); }
}

int main() {
    return run_cases([](Toks &t, std::ostream &out) {
        std::string kind = t.next();
        if (kind == "T") run_one<DGraph>(t, out, false);
        else if (kind == "TV") run_one<DGraph>(t, out, true);
        else if (kind == "I") run_one<IGraph>(t, out, false);
        else if (kind == "L") run_one<LGraph>(t, out, false);
        else if (kind == "ALL") run_all<DGraph>(t, out);
        else if (kind == "ALLI") run_all<IGraph>(t, out);
        else if (kind == "ALLL") run_all<LGraph>(t, out);
        else if (kind == "U") run_one<UGraph>(t, out, false);
        else if (kind == "ALLU") run_all<UGraph>(t, out);
        else if (kind == "TS") run_one<DGraph>(t, out, false, true);
        else if (kind == "ALLS") run_all<DGraph>(t, out, true);
        else throw std::runtime_error("c12: bad kind " + kind);
    });
}
