// c16.cpp — ForestIndex and detail::spanning_forest on the real code.
#include "graph.hpp"
#include <unordered_set>
#include <parmcb/forestindex.hpp>

int main() {
    return run_cases([](Toks &t, std::ostream &out) {
        GCase<DGraph> c; read_graph(t, c);
        size_t m = c.edges.size(), n = boost::num_vertices(c.g);
        parmcb::ForestIndex<DGraph> fi(c.g);
        out << "K " << fi.weak_connected_components() << " CSD " << fi.cycle_space_dimension() << " IDX";
        for (size_t e = 0; e < m; e++) out << " " << fi(c.edges[e]);
        out << " REV";
        for (size_t i = 0; i < m; i++) out << " " << c.id(fi(i));
        out << " ONF";
        for (size_t e = 0; e < m; e++) out << " " << (fi.is_on_forest(c.edges[e]) ? 1 : 0);
        // copy construction / assignment keep the index
        // (the assigned-to index is first built for a DIFFERENT graph, so every field has to be overwritten)
        DGraph other(n + 3); boost::add_edge(0, 1, other); boost::add_edge(1, 2, other); boost::add_edge(2, 0, other);
        parmcb::ForestIndex<DGraph> fj(fi); parmcb::ForestIndex<DGraph> fk(other); fk = fj;
        bool same = fk.weak_connected_components() == fi.weak_connected_components() && fk.cycle_space_dimension() == fi.cycle_space_dimension();
        for (size_t e = 0; e < m && same; e++) same = fk(c.edges[e]) == fi(c.edges[e]) && c.id(fk(fi(c.edges[e]))) == e
                                                      && fk.is_on_forest(c.edges[e]) == fi.is_on_forest(c.edges[e]) && fj(c.edges[e]) == fi(c.edges[e]);
        same = same && fj.weak_connected_components() == fi.weak_connected_components() && fj.cycle_space_dimension() == fi.cycle_space_dimension();
        // move construction / move assignment / growth of a vector of indices keep the index as well
        {
            parmcb::ForestIndex<DGraph> tmp(fi); parmcb::ForestIndex<DGraph> fm(std::move(tmp));
            std::vector<parmcb::ForestIndex<DGraph>> vec; vec.push_back(parmcb::ForestIndex<DGraph>(c.g)); vec.push_back(parmcb::ForestIndex<DGraph>(other));
            vec.emplace_back(c.g); vec.emplace_back(other); vec.emplace_back(c.g);                       // forces reallocation (moves or copies)
            parmcb::ForestIndex<DGraph> fa(other); parmcb::ForestIndex<DGraph> tmp2(fi); fa = std::move(tmp2);
            for (const parmcb::ForestIndex<DGraph> *p : { &fm, &vec[0], &vec[2], &vec[4], &fa }) {
                same = same && p->weak_connected_components() == fi.weak_connected_components() && p->cycle_space_dimension() == fi.cycle_space_dimension();
                for (size_t e = 0; e < m && same; e++) same = (*p)(c.edges[e]) == fi(c.edges[e]) && p->is_on_forest(c.edges[e]) == fi.is_on_forest(c.edges[e]) && c.id((*p)(fi(c.edges[e]))) == e;
            }
        }
        // refreshing a LIVE index of a graph that has grown since (same edge descriptors, renumbered): the assigned index must be the fresh one
        {
            DGraph g2(n); std::vector<DGraph::edge_descriptor> e2;
            size_t half = m / 2;
            for (size_t e = 0; e < half; e++) e2.push_back(boost::add_edge(boost::source(c.edges[e], c.g), boost::target(c.edges[e], c.g), g2).first);
            parmcb::ForestIndex<DGraph> fr(g2), fr2(g2);
            for (size_t e = half; e < m; e++) e2.push_back(boost::add_edge(boost::source(c.edges[e], c.g), boost::target(c.edges[e], c.g), g2).first);
            fr = parmcb::ForestIndex<DGraph>(g2);                         // from a temporary
            parmcb::ForestIndex<DGraph> named(g2); fr2 = named;          // from a named object
            parmcb::ForestIndex<DGraph> fresh(g2);
            for (const parmcb::ForestIndex<DGraph> *p : { &fr, &fr2 }) {
                same = same && p->weak_connected_components() == fresh.weak_connected_components() && p->cycle_space_dimension() == fresh.cycle_space_dimension();
                for (size_t e = 0; e < m && same; e++)
                    same = (*p)(e2[e]) == fresh(e2[e]) && p->is_on_forest(e2[e]) == fresh.is_on_forest(e2[e]) && (*p)((*p)(e2[e])) == e2[e];
            }
        }
        out << " COPY " << (same ? 1 : 0);
        // recover the order in which the BFS roots were taken: emission order of spanning_forest
        std::vector<DGraph::edge_descriptor> emitted;
        size_t k2 = parmcb::detail::spanning_forest(c.g, std::back_inserter(emitted));
        out << " K2 " << k2 << " EMIT";
        std::vector<bool> seen(n, false); std::vector<size_t> roots;
        for (auto &e : emitted) {
            size_t s = boost::source(e, c.g), tg = boost::target(e, c.g);
            out << " " << c.id(e);
            if (!seen[s]) { roots.push_back(s); seen[s] = true; }   // the BFS parent of a tree's first edge is its root
            seen[tg] = true;
        }
        out << " ROOTS";
        for (auto r : roots) out << " " << r;
        for (size_t v = 0; v < n; v++) out << " " << v;            // isolated vertices, in any order
    });
}
