// c05.cpp — the sequential approximate entry points on the real code.
//   X <alg> <D|I> <scale> <k> <graph>     alg = signed | fvs | iso
// The emitted edge descriptors are looked up in the CALLER's graph after the call has returned (a descriptor that is not
// an edge of the caller's graph prints as ?), so leaked internals are visible.
#include "mcb_common.hpp"
#include <parmcb/parmcb_approx_sva_signed.hpp>
#include <parmcb/parmcb_approx_sva_trees.hpp>

template<class G> void run_alg(const std::string &alg, Toks &t, int scale, std::ostream &out) {
    typedef typename boost::graph_traits<G>::edge_descriptor Edge;
    size_t k = t.next_sz();
    GCase<G> c; read_graph(t, c, scale);
    std::list<std::list<Edge>> cycles;
    auto wm = boost::get(boost::edge_weight, c.g);
    typename boost::property_traits<decltype(wm)>::value_type ret;
    try {
        if (alg == "signed") ret = parmcb::approx_mcb_sva_signed(c.g, wm, k, std::back_inserter(cycles));
        else if (alg == "fvs") ret = parmcb::approx_mcb_sva_fvs_trees(c.g, wm, k, std::back_inserter(cycles));
        else if (alg == "iso") ret = parmcb::approx_mcb_sva_iso_trees(c.g, wm, k, std::back_inserter(cycles));
        else throw std::logic_error("bad alg");
    } catch (const std::runtime_error &e) {
        out << "THROW runtime_error EMITTED " << cycles.size(); return;
    }
    out << "RET " << exact_weight(ret, scale);
    print_cycles(out, c, cycles);
}

int main() {
    return run_cases([](Toks &t, std::ostream &out) {
        std::string kind = t.next();
        if (kind != "X") throw std::logic_error("bad kind");
        std::string alg = t.next(), ty = t.next(); int scale = (int) t.next_ll();
        if (ty == "D") run_alg<DGraph>(alg, t, scale, out); else run_alg<IGraph>(alg, t, 0, out);
    });
}
