// c05.cpp — the sequential approximate entry points on the real code (C05 / C06).
//   X <alg> <D|I|L> <scale> <k> <graph>   alg = signed | fvs | iso ; D = double weights w*2^scale, I = int, L = long long (64-bit weights above 2^53)
//       prints   <PUB answer> DIR SPR <retained input ids> SPD <dropped input ids> ROOTS <..> EORD <..> [FVS <..>] <DIR answer>
//       (FVS, tree-based entry points only: parmcb::greedy_fvs on the kept object's spanner = pick oracle of the exact phase)
//       PUB answer = the public entry point approx_mcb_sva_<alg>;  DIR answer = the same two statements the entry point
//       consists of (construct BaseApproxSpannerAlgorithm, call run) executed here on an object we keep, so that the
//       oracles of ITS spanner can be read through the PARMCB_VERIF accessors: ROOTS = BFS root order of
//       detail::spanning_forest on the spanner, EORD = rank of every spanner edge in std::set<Edge> (pointer) order.
//       answer = THROW runtime_error EMITTED <n>   |   RET <w> N <n> CYC <len> <ids> ...
//   J <D|I|L> <s> <graph>                 parmcb::dijkstra directly: DIST .. PRED ..
//   Y <alg> <k> <graph>                   INEXACT double weights: graph = n m (u v hexw)*m, the weights are C99 hex floats (strtod: exact).  Outside the
//       exact domain the models speak about; only the public entry point is run (back_inserter) and its answer printed with the returned value as a
//       hex float (%a):  RET <hex> N <n> CYC ... | THROW runtime_error EMITTED <n>.  Judged structurally only (tools/approx_common.py: judge_inexact).
// The emitted edge descriptors are looked up in the CALLER's graph after the call has returned (a descriptor that is not
// an edge of the caller's graph prints as ?), so leaked internals are visible.
#include "mcb_common.hpp"
#include <parmcb/detail/fvs.hpp>
#include <parmcb/parmcb_approx_sva_signed.hpp>
#include <parmcb/parmcb_approx_sva_trees.hpp>

// BFS root order of detail::spanning_forest on an arbitrary graph (same recovery as mcb_common.hpp: recover_roots)
template<class G> std::vector<size_t> roots_of(const G &g) {
    typedef typename boost::graph_traits<G>::edge_descriptor Edge;
    size_t n = boost::num_vertices(g);
    std::vector<Edge> emitted;
    parmcb::detail::spanning_forest(g, std::back_inserter(emitted));
    std::vector<bool> seen(n, false); std::vector<size_t> roots;
    for (auto &e : emitted) {
        size_t s = boost::source(e, g), tg = boost::target(e, g);
        if (!seen[s]) { roots.push_back(s); seen[s] = true; }
        seen[tg] = true;
    }
    for (size_t v = 0; v < n; v++) roots.push_back(v);
    return roots;
}

template<class G, class Exact, class WMap>
void run_direct(GCase<G> &c, const WMap &wm, size_t k, int scale, std::ostream &out, bool with_fvs) {
    typedef typename boost::graph_traits<G>::edge_descriptor Edge;
    auto index_map = boost::get(boost::vertex_index, c.g);
    parmcb::detail::BaseApproxSpannerAlgorithm<G, WMap, Exact, false> algo(c.g, wm, index_map, k);
    const G &sp = algo.verif_spanner();
    const auto &tr = algo.verif_edge_spanner_to_g();
    std::vector<Edge> sedges;
    for (auto ep = boost::edges(sp); ep.first != ep.second; ++ep.first) sedges.push_back(*ep.first);
    out << " DIR SPR";
    for (auto &se : sedges) { auto it = tr.find(se); out << " " << (it == tr.end() ? std::string("?") : std::to_string(c.id(it->second))); }
    out << " SPD";
    for (auto &e : algo.verif_non_spanner_edges()) out << " " << c.id(e);
    out << " ROOTS";
    for (auto r : roots_of(sp)) out << " " << r;
    out << " EORD";
    {
        std::set<Edge> s(sedges.begin(), sedges.end());
        std::vector<size_t> rank(sedges.size(), 0); size_t r = 0;
        for (auto &e : s) { for (size_t i = 0; i < sedges.size(); i++) if (sedges[i] == e) rank[i] = r; r++; }
        for (auto x : rank) out << " " << x;
    }
    if (with_fvs) {
        std::vector<typename boost::graph_traits<G>::vertex_descriptor> fvs;
        parmcb::greedy_fvs(sp, std::back_inserter(fvs));
        out << " FVS";
        for (auto v : fvs) out << " " << v;
    }
    std::list<std::list<Edge>> cycles;
    typename boost::property_traits<WMap>::value_type ret;
    try {
        ret = algo.run(std::back_inserter(cycles));
    } catch (const std::runtime_error &e) {
        out << " THROW runtime_error EMITTED " << cycles.size(); return;
    }
    out << " RET " << exact_weight(ret, scale);
    print_cycles(out, c, cycles);
}

template<class G> void run_alg(const std::string &alg, Toks &t, int scale, std::ostream &out) {
    typedef typename boost::graph_traits<G>::edge_descriptor Edge;
    typedef std::back_insert_iterator<std::list<std::list<Edge>>> OutIt;
    size_t k = t.next_sz();
    GCase<G> c; read_graph(t, c, scale);
    auto wm = boost::get(boost::edge_weight, c.g);
    typedef decltype(wm) WMap;
    {
        std::list<std::list<Edge>> cycles;
        typename boost::property_traits<WMap>::value_type ret;
        bool thrown = false;
        try {
            if (alg == "signed") ret = parmcb::approx_mcb_sva_signed(c.g, wm, k, std::back_inserter(cycles));
            else if (alg == "fvs") ret = parmcb::approx_mcb_sva_fvs_trees(c.g, wm, k, std::back_inserter(cycles));
            else if (alg == "iso") ret = parmcb::approx_mcb_sva_iso_trees(c.g, wm, k, std::back_inserter(cycles));
            else throw std::logic_error("bad alg");
        } catch (const std::runtime_error &e) {
            out << "THROW runtime_error EMITTED " << cycles.size(); thrown = true;
        }
        if (!thrown) {
            out << "RET " << exact_weight(ret, scale);
            print_cycles(out, c, cycles);
            // the same call through a POSITIONAL output iterator (pre-sized storage, as a caller who knows m-n+c would use):
            // it must deliver the same cycles in the same slots and the same value
            std::vector<std::list<Edge>> slots(cycles.size() + 2);
            typename boost::property_traits<WMap>::value_type ret2;
            if (alg == "signed") ret2 = parmcb::approx_mcb_sva_signed(c.g, wm, k, slots.begin());
            else if (alg == "fvs") ret2 = parmcb::approx_mcb_sva_fvs_trees(c.g, wm, k, slots.begin());
            else ret2 = parmcb::approx_mcb_sva_iso_trees(c.g, wm, k, slots.begin());
            // (which of several equally light cycles the exact phase picks depends on the pointer order of the internal spanner's edges, which
            //  differs between two calls: so compare the value, the slots that were written and the weight they carry — not the cycles themselves)
            bool same = ret2 == ret && slots[cycles.size()].empty() && slots[cycles.size() + 1].empty();
            typename boost::property_traits<WMap>::value_type sum2 = typename boost::property_traits<WMap>::value_type();
            for (size_t j = 0; j < cycles.size(); j++) {
                same = same && !slots[j].empty();
                for (auto &e : slots[j]) { if (c.id(e) == (size_t) -1) same = false; else sum2 += boost::get(wm, e); }
            }
            same = same && sum2 == ret2;
            if (!same) throw std::logic_error("the same call through a positional output iterator (vector::begin()) does not fill exactly the first m-n+c slots with cycles of the returned total weight / returns a different value than through back_inserter");
        }
    }
    // the same two statements, on an object whose spanner we can look at
    if (alg == "signed") run_direct<G, parmcb::detail::mcb_sva_signed<G, WMap, OutIt>>(c, wm, k, scale, out, false);
    else if (alg == "fvs") run_direct<G, parmcb::detail::mcb_sva_fvs_trees<G, WMap, OutIt>>(c, wm, k, scale, out, true);
    else run_direct<G, parmcb::detail::mcb_sva_fvs_trees<G, WMap, OutIt>>(c, wm, k, scale, out, true);   // sic: what approx_mcb_sva_iso_trees instantiates
}

static void run_inexact(const std::string &alg, Toks &t, std::ostream &out) {
    typedef boost::graph_traits<DGraph>::edge_descriptor Edge;
    size_t k = t.next_sz();
    GCase<DGraph> c;
    size_t n = t.next_sz(), m = t.next_sz();
    c.g = DGraph(n);
    for (size_t i = 0; i < m; i++) {
        size_t u = t.next_sz(), v = t.next_sz(); std::string ws = t.next();
        char *end = nullptr; double w = std::strtod(ws.c_str(), &end);
        if (end == ws.c_str() || *end != 0 || !std::isfinite(w)) throw std::logic_error("bad float " + ws);
        boost::put(boost::edge_weight, c.g, boost::add_edge(u, v, c.g).first, w);
    }
    for (auto ep = boost::edges(c.g); ep.first != ep.second; ++ep.first) c.edges.push_back(*ep.first);
    auto wm = boost::get(boost::edge_weight, c.g);
    std::list<std::list<Edge>> cycles;
    double ret;
    try {
        if (alg == "signed") ret = parmcb::approx_mcb_sva_signed(c.g, wm, k, std::back_inserter(cycles));
        else if (alg == "fvs") ret = parmcb::approx_mcb_sva_fvs_trees(c.g, wm, k, std::back_inserter(cycles));
        else if (alg == "iso") ret = parmcb::approx_mcb_sva_iso_trees(c.g, wm, k, std::back_inserter(cycles));
        else throw std::logic_error("bad alg");
    } catch (const std::runtime_error &e) {
        out << "THROW runtime_error EMITTED " << cycles.size(); return;
    }
    char buf[64]; snprintf(buf, sizeof buf, "%a", ret);
    out << "RET " << buf;
    print_cycles(out, c, cycles);
}

template<class G> void run_dijkstra(Toks &t, std::ostream &out) {
    typedef typename boost::graph_traits<G>::edge_descriptor Edge;
    typedef typename boost::graph_traits<G>::vertex_descriptor Vertex;
    typedef typename boost::property_traits<typename boost::property_map<G, boost::edge_weight_t>::type>::value_type W;
    size_t s = t.next_sz();
    GCase<G> c; read_graph(t, c, 0);
    auto wm = boost::get(boost::edge_weight, c.g);
    auto index_map = boost::get(boost::vertex_index, c.g);
    size_t n = boost::num_vertices(c.g);
    std::vector<W> dist(n, (std::numeric_limits<W>::max)());
    boost::function_property_map<parmcb::detail::VertexIndexFunctor<G, W>, Vertex, W&> dist_map(
            parmcb::detail::VertexIndexFunctor<G, W>(dist, index_map));
    std::vector<std::tuple<bool, Edge>> pred(n, std::make_tuple(false, Edge()));
    boost::function_property_map<parmcb::detail::VertexIndexFunctor<G, std::tuple<bool, Edge>>, Vertex, std::tuple<bool, Edge>&> pred_map(
            parmcb::detail::VertexIndexFunctor<G, std::tuple<bool, Edge>>(pred, index_map));
    parmcb::dijkstra(c.g, wm, s, dist_map, pred_map);
    out << "DIST";
    for (size_t v = 0; v < n; v++) { if (dist[v] == (std::numeric_limits<W>::max)()) out << " inf"; else out << " " << exact_weight(dist[v], 0); }
    out << " PRED";
    for (size_t v = 0; v < n; v++) { if (!std::get<0>(pred[v])) out << " -"; else out << " " << c.id(std::get<1>(pred[v])); }
}

int main() {
    return run_cases([](Toks &t, std::ostream &out) {
        std::string kind = t.next();
        if (kind == "X") {
            std::string alg = t.next(), ty = t.next(); int scale = (int) t.next_ll();
            if (ty == "D") run_alg<DGraph>(alg, t, scale, out); else if (ty == "L") run_alg<LGraph>(alg, t, 0, out); else run_alg<IGraph>(alg, t, 0, out);
        } else if (kind == "Y") {
            std::string alg = t.next();
            run_inexact(alg, t, out);
        } else if (kind == "J") {
            std::string ty = t.next();
            if (ty == "D") run_dijkstra<DGraph>(t, out); else if (ty == "L") run_dijkstra<LGraph>(t, out); else run_dijkstra<IGraph>(t, out);
        } else throw std::logic_error("bad kind");
    });
}
