// c10.cpp — parmcb::read_dimacs_from_file and the three input validators on the real code.
//
// case kinds (one per stdin line, one canonical output line each):
//   R <hex>                 file content, two hex digits per byte ("-" = empty file).  The bytes are written to a
//                           temporary file ($TMPDIR or /tmp, name c10h.<pid>, removed at exit), which is then read by
//                           parmcb::read_dimacs_from_file into the demo programs' graph type
//                           adjacency_list<vecS, vecS, undirectedS, no_property, property<edge_weight_t, double>>.
//                           output:  OK <n> <m> (<source> <target> <weight %a>)*   in boost::edges order,   or  THROW
//                           (std::system_error), or IMPL-EXCEPTION ... for anything else (e.g. std::bad_alloc)
//   V n m (u v w)*m         multigraph (0-based endpoints, weights as C99 hex floats or decimal integers, read by
//                           strtod => exact).  output:  V <has_loops> <has_multiple_edges> <has_non_positive_weights>
#include "common.hpp"
#include <unistd.h>
#include <sys/resource.h>
#include <parmcb/config.hpp>
#include <boost/graph/adjacency_list.hpp>
#include <parmcb/util.hpp>

typedef boost::adjacency_list<boost::vecS, boost::vecS, boost::undirectedS, boost::no_property,
        boost::property<boost::edge_weight_t, double>> graph_t;

static std::string tmp_path;

static void remove_tmp() { if (!tmp_path.empty()) unlink(tmp_path.c_str()); }

static int hexval(char c) {
    if (c >= '0' && c <= '9') return c - '0';
    if (c >= 'a' && c <= 'f') return c - 'a' + 10;
    if (c >= 'A' && c <= 'F') return c - 'A' + 10;
    throw std::runtime_error("case: bad hex digit");
}

static void dump_graph(const graph_t &g, std::ostream &out) {
    auto w = boost::get(boost::edge_weight, g);
    out << "OK " << boost::num_vertices(g) << " " << boost::num_edges(g);
    char buf[64];
    for (auto ep = boost::edges(g); ep.first != ep.second; ++ep.first) {
        snprintf(buf, sizeof buf, "%a", (double) w[*ep.first]);
        out << " " << boost::source(*ep.first, g) << " " << boost::target(*ep.first, g) << " " << buf;
    }
}

static void do_read(Toks &t, std::ostream &out) {
    std::string hex = t.next(), bytes;
    if (hex != "-") {
        if (hex.size() % 2) throw std::runtime_error("case: odd hex length");
        for (size_t i = 0; i < hex.size(); i += 2) bytes.push_back((char) (hexval(hex[i]) * 16 + hexval(hex[i + 1])));
    }
    FILE *fp = fopen(tmp_path.c_str(), "wb");
    if (!fp) throw std::runtime_error("cannot create " + tmp_path);
    if (!bytes.empty() && fwrite(bytes.data(), 1, bytes.size(), fp) != bytes.size()) { fclose(fp); throw std::runtime_error("short write"); }
    fclose(fp);
    fp = fopen(tmp_path.c_str(), "r");        // as src/mcb-dimacs.cpp opens its input
    if (!fp) throw std::runtime_error("cannot reopen " + tmp_path);
    graph_t g;
    bool thrown = false;
    try { parmcb::read_dimacs_from_file(fp, g); }
    catch (const std::system_error &) { thrown = true; }
    catch (...) { fclose(fp); throw; }
    fclose(fp);
    if (thrown) out << "THROW"; else dump_graph(g, out);
}

static void do_validators(Toks &t, std::ostream &out) {
    size_t n = t.next_sz(), m = t.next_sz();
    graph_t g(n);
    auto w = boost::get(boost::edge_weight, g);
    for (size_t i = 0; i < m; i++) {
        size_t u = t.next_sz(), v = t.next_sz();
        const std::string &ws = t.next();
        char *end = 0; double x = strtod(ws.c_str(), &end);
        if (end == ws.c_str() || *end) throw std::runtime_error("case: bad weight " + ws);
        if (u >= n || v >= n) throw std::runtime_error("case: endpoint out of range");
        auto e = boost::add_edge(u, v, g).first;
        w[e] = x;
    }
    out << "V " << (parmcb::has_loops(g) ? 1 : 0) << " " << (parmcb::has_multiple_edges(g) ? 1 : 0) << " "
        << (parmcb::has_non_positive_weights(g, boost::get(boost::edge_weight, g)) ? 1 : 0);
}

int main() {
    // Defect D3 can make the reader loop over an uninitialised nnodes ("p edge 5" as an unterminated last line is read as
    // "p edge "): cap the address space so that such a run ends in std::bad_alloc instead of exhausting the machine.
#if !defined(__SANITIZE_ADDRESS__) && !defined(__SANITIZE_THREAD__)
    { struct rlimit rl; rl.rlim_cur = rl.rlim_max = (rlim_t) 3 << 30; setrlimit(RLIMIT_AS, &rl); }
#endif
    const char *td = getenv("TMPDIR");
    tmp_path = std::string(td && *td ? td : "/tmp") + "/c10h." + std::to_string((long) getpid());
    atexit(remove_tmp);
    int rc = run_cases([](Toks &t, std::ostream &out) {
        std::string c = t.next();
        if (c == "R") do_read(t, out);
        else if (c == "V") do_validators(t, out);
        else throw std::runtime_error("bad case kind " + c);
    });
    remove_tmp();
    return rc;
}
