// c10.cpp — parmcb::read_dimacs_from_file and the three input validators on the real code.
//
// case kinds (one per stdin line, one canonical output line each):
//   R <hex>                 file content, two hex digits per byte ("-" = empty file).  The bytes are written to a
//                           temporary file ($TMPDIR or /tmp, name c10h.<pid>, removed at exit), which is then read by
//                           parmcb::read_dimacs_from_file into the demo programs' graph type
//                           adjacency_list<vecS, vecS, undirectedS, no_property, property<edge_weight_t, double>>.
//                           output:  OK <n> <m> (<source> <target> <weight %a>)*   in boost::edges order,   or  THROW
//                           (std::system_error), or IMPL-EXCEPTION ... for anything else (e.g. std::bad_alloc)
//   V n m (u v w)*m         multigraph (0-based endpoints, weights as C99 hex floats or decimal integers, read by
//                           strtod => exact).  output:  V <has_loops> <has_multiple_edges> <has_non_positive_weights>
#include "common.hpp"
#include <unistd.h>
#include <sys/resource.h>
#include <parmcb/config.hpp>
#include <boost/graph/adjacency_list.hpp>
#include <parmcb/util.hpp>

typedef boost::adjacency_list<boost::vecS, boost::vecS, boost::undirectedS, boost::no_property,
        boost::property<boost::edge_weight_t, double>> graph_t;

static std::string tmp_path;

static void remove_tmp() { if (!tmp_path.empty()) unlink(tmp_path.c_str()); }

static int hexval(char c) {
    if (c >= '0' && c <= '9') return c - '0';
    if (c >= 'a' && c <= 'f') return c - 'a' + 10;
    if (c >= 'A' && c <= 'F') return c - 'A' + 10;
    throw std::runtime_error("case: bad hex digit");
}

static void dump_graph(const graph_t &g, std::ostream &out) {
    auto w = boost::get(boost::edge_weight, g);
    out << "OK " << boost::num_vertices(g) << " " << boost::num_edges(g);
    char buf[64];
    for (auto ep = boost::edges(g); ep.first != ep.second; ++ep.first) {
        snprintf(buf, sizeof buf, "%a", (double) w[*ep.first]);
        out << " " << boost::source(*ep.first, g) << " " << boost::target(*ep.first, g) << " " << buf;
    }
}

static void do_read(Toks &t, std::ostream &out) {
    std::string hex = t.next(), bytes;
    if (hex != "-") {
        if (hex.size() % 2) throw std::runtime_error("case: odd hex length");
        for (size_t i = 0; i < hex.size(); i += 2) bytes.push_back((char) (hexval(hex[i]) * 16 + hexval(hex[i + 1])));
    }
    FILE *fp = fopen(tmp_path.c_str(), "wb");
    if (!fp) throw std::runtime_error("cannot create " + tmp_path);
    if (!bytes.empty() && fwrite(bytes.data(), 1, bytes.size(), fp) != bytes.size()) { fclose(fp); throw std::runtime_error("short write"); }
    fclose(fp);
    fp = fopen(tmp_path.c_str(), "r");        // as src/mcb-dimacs.cpp opens its input
    if (!fp) throw std::runtime_error("cannot reopen " + tmp_path);
    graph_t g;
    bool thrown = false;
    try { parmcb::read_dimacs_from_file(fp, g); }
    catch (const std::system_error &) { thrown = true; }
    catch (...) { fclose(fp); throw; }
    fclose(fp);
    // the same file read into a graph that is NOT empty (three vertices, two weighted edges): the described graph must be ADDED next to what is
    // there -- the same outcome, shifted by three vertices, the caller's vertices and edges untouched
    {
        fp = fopen(tmp_path.c_str(), "r");
        if (!fp) throw std::runtime_error("cannot reopen " + tmp_path);
        graph_t h(3);
        auto wh = boost::get(boost::edge_weight, h);
        wh[boost::add_edge(0, 1, h).first] = 7.5; wh[boost::add_edge(1, 2, h).first] = 0.25;
        bool thrown2 = false;
        try { parmcb::read_dimacs_from_file(fp, h); }
        catch (const std::system_error &) { thrown2 = true; }
        catch (...) { fclose(fp); throw; }
        fclose(fp);
        const std::string what = "reading the same file into a graph that already has 3 vertices and 2 edges: ";
        if (thrown2 != thrown) throw std::runtime_error(what + (thrown2 ? "error, but none when read into an empty graph" : "no error, but one when read into an empty graph"));
        if (!thrown) {
            if (boost::num_vertices(h) != boost::num_vertices(g) + 3 || boost::num_edges(h) != boost::num_edges(g) + 2)
                throw std::runtime_error(what + std::to_string(boost::num_vertices(h)) + " vertices and " + std::to_string(boost::num_edges(h)) + " edges afterwards, expected "
                                         + std::to_string(boost::num_vertices(g) + 3) + " and " + std::to_string(boost::num_edges(g) + 2));
            auto wg = boost::get(boost::edge_weight, g);
            auto eh = boost::edges(h).first; auto eg = boost::edges(g).first;
            for (size_t i = 0; i < boost::num_edges(h); i++, ++eh) {
                size_t su, tu; double wu;
                if (i == 0) { su = 0; tu = 1; wu = 7.5; } else if (i == 1) { su = 1; tu = 2; wu = 0.25; }
                else { su = boost::source(*eg, g) + 3; tu = boost::target(*eg, g) + 3; wu = wg[*eg]; ++eg; }
                if (boost::source(*eh, h) != su || boost::target(*eh, h) != tu || !(wh[*eh] == wu))
                    throw std::runtime_error(what + "edge #" + std::to_string(i) + " is (" + std::to_string(boost::source(*eh, h)) + "," + std::to_string(boost::target(*eh, h)) + "," + std::to_string(wh[*eh])
                                             + "), expected (" + std::to_string(su) + "," + std::to_string(tu) + "," + std::to_string(wu) + ")");
            }
        }
    }
    if (thrown) out << "THROW"; else dump_graph(g, out);
}

static void do_validators(Toks &t, std::ostream &out) {
    size_t n = t.next_sz(), m = t.next_sz();
    graph_t g(n);
    auto w = boost::get(boost::edge_weight, g);
    for (size_t i = 0; i < m; i++) {
        size_t u = t.next_sz(), v = t.next_sz();
        const std::string &ws = t.next();
        char *end = 0; double x = strtod(ws.c_str(), &end);
        if (end == ws.c_str() || *end) throw std::runtime_error("case: bad weight " + ws);
        if (u >= n || v >= n) throw std::runtime_error("case: endpoint out of range");
        auto e = boost::add_edge(u, v, g).first;
        w[e] = x;
    }
    out << "V " << (parmcb::has_loops(g) ? 1 : 0) << " " << (parmcb::has_multiple_edges(g) ? 1 : 0) << " "
        << (parmcb::has_non_positive_weights(g, boost::get(boost::edge_weight, g)) ? 1 : 0);
}

int main() {
    // Defect D3 can make the reader loop over an uninitialised nnodes ("p edge 5" as an unterminated last line is read as
    // "p edge "): cap the address space so that such a run ends in std::bad_alloc instead of exhausting the machine.
#if !defined(__SANITIZE_ADDRESS__) && !defined(__SANITIZE_THREAD__)
    { struct rlimit rl; rl.rlim_cur = rl.rlim_max = (rlim_t) 3 << 30; setrlimit(RLIMIT_AS, &rl); }
#endif
    const char *td = getenv("TMPDIR");
    tmp_path = std::string(td && *td ? td : "/tmp") + "/c10h." + std::to_string((long) getpid());
    atexit(remove_tmp);
    int rc = run_cases([](Toks &t, std::ostream &out) {
        std::string c = t.next();
        if (c == "R") do_read(t, out);
        else if (c == "V") do_validators(t, out);
        else throw std::runtime_error("bad case kind " + c);
    });
    remove_tmp();
    return rc;
}
