// common.hpp — shared helpers for the correspondence harnesses (case tokenizer, printing).
#ifndef VERIF_COMMON_HPP
#define VERIF_COMMON_HPP
#include <cstdio>
#include <cstring>
#include <cstdlib>
#include <cmath>
#include <string>
#include <vector>
#include <sstream>
#include <iostream>
#include <stdexcept>
#include <system_error>
#include <cassert>
#include <algorithm>
#include <iterator>
#include <list>
#include <set>
#include <map>
#include <unordered_set>
#include <memory>
#include <limits>
#include <numeric>
#include <functional>

struct Toks {
    std::vector<std::string> a; size_t i = 0;
    explicit Toks(const std::string &line) { std::istringstream is(line); std::string s; while (is >> s) a.push_back(s); }
    bool more() const { return i < a.size(); }
    const std::string &next() { if (i >= a.size()) throw std::runtime_error("case: out of tokens"); return a[i++]; }
    long long next_ll() { return std::stoll(next()); }
    size_t next_sz() { return (size_t) std::stoull(next()); }
    std::vector<size_t> next_szlist() { size_t k = next_sz(); std::vector<size_t> v; for (size_t j = 0; j < k; j++) v.push_back(next_sz()); return v; }
};

// runs f on every non-comment line of stdin; prints exactly one line per case
template<class F> int run_cases(F f) {
    std::string line;
    while (std::getline(std::cin, line)) {
        if (line.empty() || line[0] == '#') continue;
        std::ostringstream out;
        // whatever the library prints on std::cout (PARMCB_LOGGING builds) is not part of the case's answer: discard it while the case runs
        struct Quiet { std::ostringstream sink; std::streambuf *old; Quiet() : old(std::cout.rdbuf(sink.rdbuf())) {} ~Quiet() { std::cout.rdbuf(old); } };
        try { Quiet q; Toks t(line); f(t, out); }
        catch (const std::exception &e) { out.str(""); out << "IMPL-EXCEPTION " << e.what(); }
        catch (...) { out.str(""); out << "IMPL-EXCEPTION unknown"; }
        std::cout << out.str() << "\n";
    }
    std::cout.flush();
    return 0;
}
#endif
