// c09.cpp — the sequential exact entry points on INEXACT double weights (property C09).  Weights are given as C99 hex
// floats (parsed with strtod: exact) and every double is printed with %a, so the comparison with the binary64 model
// is bit-exact.  Compile with -ffp-contract=off (no fused multiply-add; x86-64 SSE2 arithmetic has no excess precision).
//   A <alg> <graph>                alg = signed | fvs | iso | *_tbb ; graph = n m (u v hexw)*m
//        for fvs / iso the line also carries the oracles of the binary64 trees model (TreesFloatModel.v):
//        FVS = the sources of the builder's trees (the feedback vertex set in emission order, or all vertices) and
//        ORD = the arrangement std::sort leaves the builder's candidates in, as positions of the builder's emission order
//        (the harness runs the same builder and the same std::sort call on the same sequence: deterministic)
//   B <use_hidden> <s> <spos> <t> <tpos> <hexlimit|-> <k signed ids> <k hidden ids> <graph>
//   T <graph>                      every SPTree field for every source: "ALL ; T | node hexweight pred parent first | ..."
//   C <graph>                      the three candidate collections in emission order with recorded weights (hex) + trees
//   L <alg> <q> (<k> ids)*q <graph>   q direct calls of ShortestOddCycleLookup<.,.,false> (the builder of alg = fvs | iso,
//                                  std::sort as in _mcb_sva_trees) on the given signed edge sets:
//                                  "FVS .. ORD .. L q  (F hexw len ids | NF hexw len)*q"
#include "mcb_common.hpp"
#include <parmcb/parmcb_sva_signed.hpp>
#include <parmcb/parmcb_sva_signed_tbb.hpp>
#include <parmcb/parmcb_sva_trees.hpp>

static double parse_hex(const std::string &s) {
    char *end = nullptr;
    double x = std::strtod(s.c_str(), &end);
    if (end == s.c_str() || *end != 0) throw std::runtime_error("bad float " + s);
    return x;
}
static std::string hex(double x) { char buf[64]; snprintf(buf, sizeof buf, "%a", x); return buf; }

static void read_graph_f(Toks &t, GCase<DGraph> &c) {
    size_t n = t.next_sz(), m = t.next_sz();
    c.g = DGraph(n);
    for (size_t i = 0; i < m; i++) {
        size_t u = t.next_sz(), v = t.next_sz(); double w = parse_hex(t.next());
        auto e = boost::add_edge(u, v, c.g).first;
        boost::put(boost::edge_weight, c.g, e, w);
    }
    c.edges.clear();
    for (auto ep = boost::edges(c.g); ep.first != ep.second; ++ep.first) c.edges.push_back(*ep.first);
}

typedef boost::property_map<DGraph, boost::edge_weight_t>::type WMapD;
typedef parmcb::SPTree<DGraph, WMapD> TreeD;
typedef parmcb::CandidateCycle<DGraph, WMapD> CandD;

// the builder of the entry point + the std::sort call of _mcb_sva_trees; prints the oracles FVS and ORD
template<class Builder> static void build_sorted(std::ostream &out, GCase<DGraph> &c, std::vector<TreeD> &trees, std::vector<CandD> &cycles) {
    WMapD wm = boost::get(boost::edge_weight, c.g);
    Builder bld;
    bld(c.g, wm, trees, cycles);
    std::map<std::pair<size_t, size_t>, size_t> pos;          // (tree, edge id) -> position in the builder's output
    for (size_t i = 0; i < cycles.size(); i++) {
        auto key = std::make_pair(cycles[i].tree(), c.id(cycles[i].edge()));
        if (pos.count(key)) throw std::runtime_error("candidate emitted twice");
        pos[key] = i;
    }
    std::sort(cycles.begin(), cycles.end(), [](const auto &a, const auto &b) {
        return a.weight() < b.weight();
    });
    out << " FVS";
    for (auto &t : trees) out << " " << t.source();
    out << " ORD";
    for (auto &cc : cycles) out << " " << pos.at(std::make_pair(cc.tree(), c.id(cc.edge())));
}

static void trees_oracles(const std::string &alg, std::ostream &out, GCase<DGraph> &c) {
    std::vector<TreeD> trees; std::vector<CandD> cycles;
    if (alg == "fvs") build_sorted<parmcb::detail::FVSCyclesBuilder<DGraph, WMapD>>(out, c, trees, cycles);
    else build_sorted<parmcb::detail::ISOCyclesBuilder<DGraph, WMapD>>(out, c, trees, cycles);
}

static void run_alg(const std::string &alg, Toks &t, std::ostream &out) {
    typedef boost::graph_traits<DGraph>::edge_descriptor Edge;
    GCase<DGraph> c; read_graph_f(t, c);
    print_oracles(out, c);
    if (alg == "fvs" || alg == "iso") trees_oracles(alg, out, c);
    std::list<std::list<Edge>> cycles;
    auto wm = boost::get(boost::edge_weight, c.g);
    double ret;
    if (alg == "signed") ret = parmcb::mcb_sva_signed(c.g, wm, std::back_inserter(cycles));
    else if (alg == "fvs") ret = parmcb::mcb_sva_fvs_trees(c.g, wm, std::back_inserter(cycles));
    else if (alg == "iso") ret = parmcb::mcb_sva_iso_trees(c.g, wm, std::back_inserter(cycles));
    else if (alg == "signed_tbb") ret = parmcb::mcb_sva_signed_tbb(c.g, wm, std::back_inserter(cycles));       // real oneTBB, default arena
    else if (alg == "fvs_tbb") ret = parmcb::mcb_sva_fvs_trees_tbb(c.g, wm, std::back_inserter(cycles));
    else if (alg == "iso_tbb") ret = parmcb::mcb_sva_iso_trees_tbb(c.g, wm, std::back_inserter(cycles));
    else throw std::runtime_error("bad alg");
    out << " RET " << hex(ret);
    print_cycles(out, c, cycles);
}

static void run_bidir(Toks &t, std::ostream &out) {
    typedef boost::graph_traits<DGraph>::edge_descriptor Edge;
    bool use_hidden = t.next_sz() != 0;
    size_t s = t.next_sz(); bool spos = t.next_sz() != 0; size_t tg = t.next_sz(); bool tpos = t.next_sz() != 0;
    std::string lim = t.next();
    auto sg = t.next_szlist(); auto hd = t.next_szlist();
    GCase<DGraph> c; read_graph_f(t, c);
    std::set<Edge> signed_edges, hidden;
    for (auto i : sg) signed_edges.insert(c.edges.at(i));
    for (auto i : hd) hidden.insert(c.edges.at(i));
    bool use_limit = lim != "-";
    double limit = use_limit ? parse_hex(lim) : 0.0;
    auto res = parmcb::bidirectional_signed_dijkstra(c.g, boost::get(boost::edge_weight, c.g), signed_edges, hidden, use_hidden,
                                                     s, spos, tg, tpos, use_limit, limit);
    if (!std::get<2>(res)) { out << "NF"; return; }
    out << "F " << hex(std::get<1>(res)) << " " << std::get<0>(res).size();
    std::vector<size_t> ids; for (auto &e : std::get<0>(res)) ids.push_back(c.id(e));
    std::sort(ids.begin(), ids.end());
    for (auto i : ids) out << " " << i;
}

static void print_tree_f(std::ostream &out, GCase<DGraph> &c, TreeD &tree) {
    out << "T";
    for (auto vp = boost::vertices(c.g); vp.first != vp.second; ++vp.first) {
        auto v = *vp.first;
        out << " | ";
        auto nd = tree.node(v);
        if (nd == nullptr) out << "0 - - -";
        else {
            out << "1 " << hex(nd->weight());
            if (!nd->has_pred()) out << " -1 -1";
            else out << " " << c.id(nd->pred()) << " " << boost::opposite(nd->pred(), v, c.g);
        }
        out << " " << tree.first(v);
    }
}

static void run_trees(Toks &t, std::ostream &out) {
    GCase<DGraph> c; read_graph_f(t, c);
    WMapD wm = boost::get(boost::edge_weight, c.g);
    auto im = boost::get(boost::vertex_index, c.g);
    std::vector<TreeD> trees;
    for (auto vp = boost::vertices(c.g); vp.first != vp.second; ++vp.first)
        trees.emplace_back(trees.size(), c.g, im, wm, *vp.first);
    out << "ALL";
    for (auto &tree : trees) { out << " ; "; print_tree_f(out, c, tree); }
}

template<class Builder> static void run_builder_f(std::ostream &out, GCase<DGraph> &c) {
    WMapD wm = boost::get(boost::edge_weight, c.g);
    std::vector<TreeD> trees; std::vector<CandD> cycles;
    Builder b;
    b(c.g, wm, trees, cycles);
    out << " " << cycles.size();
    for (auto &cc : cycles)
        out << " " << trees.at(cc.tree()).source() << " " << c.id(cc.edge()) << " " << hex(cc.weight());
    out << " T " << trees.size();
    for (auto &t : trees) {
        out << " " << t.source();
        for (auto vp = boost::vertices(c.g); vp.first != vp.second; ++vp.first) {
            auto nd = t.node(*vp.first);
            if (nd == nullptr) out << " -2";
            else if (!nd->has_pred()) out << " -1";
            else out << " " << c.id(nd->pred());
        }
    }
}

static void run_collections(Toks &t, std::ostream &out) {
    GCase<DGraph> c; read_graph_f(t, c);
    out << "H"; run_builder_f<parmcb::detail::HortonCyclesBuilder<DGraph, WMapD>>(out, c);
    out << " F"; run_builder_f<parmcb::detail::FVSCyclesBuilder<DGraph, WMapD>>(out, c);
    out << " I"; run_builder_f<parmcb::detail::ISOCyclesBuilder<DGraph, WMapD>>(out, c);
}

static void run_lookup(Toks &t, std::ostream &out) {
    typedef boost::graph_traits<DGraph>::edge_descriptor Edge;
    std::string alg = t.next();
    size_t q = t.next_sz();
    std::vector<std::vector<size_t>> sets;
    for (size_t j = 0; j < q; j++) sets.push_back(t.next_szlist());
    GCase<DGraph> c; read_graph_f(t, c);
    WMapD wm = boost::get(boost::edge_weight, c.g);
    std::vector<TreeD> trees; std::vector<CandD> cycles;
    if (alg == "fvs") build_sorted<parmcb::detail::FVSCyclesBuilder<DGraph, WMapD>>(out, c, trees, cycles);
    else if (alg == "iso") build_sorted<parmcb::detail::ISOCyclesBuilder<DGraph, WMapD>>(out, c, trees, cycles);
    else throw std::runtime_error("bad alg");
    parmcb::ShortestOddCycleLookup<DGraph, WMapD, false> lookup(c.g, wm, trees, cycles, true);
    out << " L " << q;
    for (auto &ids : sets) {
        std::set<Edge> signed_edges;
        for (auto i : ids) signed_edges.insert(c.edges.at(i));
        std::tuple<std::set<Edge>, double, bool> best = lookup(signed_edges);
        out << (std::get<2>(best) ? " F " : " NF ") << hex(std::get<1>(best)) << " " << std::get<0>(best).size();
        std::vector<size_t> es; for (auto &e : std::get<0>(best)) es.push_back(c.id(e));
        std::sort(es.begin(), es.end());
        for (auto i : es) out << " " << i;
    }
}

int main() {
    return run_cases([](Toks &t, std::ostream &out) {
        std::string kind = t.next();
        if (kind == "A") { std::string alg = t.next(); run_alg(alg, t, out); }
        else if (kind == "B") run_bidir(t, out);
        else if (kind == "T") run_trees(t, out);
        else if (kind == "C") run_collections(t, out);
        else if (kind == "L") run_lookup(t, out);
        else throw std::runtime_error("bad kind");
    });
}
