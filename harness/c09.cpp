// c09.cpp — the sequential exact entry points on INEXACT double weights (property C09).  Weights are given as C99 hex
// floats (parsed with strtod: exact) and every double is printed with %a, so the comparison with the binary64 model
// is bit-exact.  Compile with -ffp-contract=off (no fused multiply-add; x86-64 SSE2 arithmetic has no excess precision).
//   A <alg> <graph>                alg = signed | fvs | iso ; graph = n m (u v hexw)*m
//   B <use_hidden> <s> <spos> <t> <tpos> <hexlimit|-> <k signed ids> <k hidden ids> <graph>
#include "mcb_common.hpp"
#include <parmcb/parmcb_sva_signed.hpp>
#include <parmcb/parmcb_sva_signed_tbb.hpp>
#include <parmcb/parmcb_sva_trees.hpp>

static double parse_hex(const std::string &s) {
    char *end = nullptr;
    double x = std::strtod(s.c_str(), &end);
    if (end == s.c_str() || *end != 0) throw std::runtime_error("bad float " + s);
    return x;
}
static std::string hex(double x) { char buf[64]; snprintf(buf, sizeof buf, "%a", x); return buf; }

static void read_graph_f(Toks &t, GCase<DGraph> &c) {
    size_t n = t.next_sz(), m = t.next_sz();
    c.g = DGraph(n);
    for (size_t i = 0; i < m; i++) {
        size_t u = t.next_sz(), v = t.next_sz(); double w = parse_hex(t.next());
        auto e = boost::add_edge(u, v, c.g).first;
        boost::put(boost::edge_weight, c.g, e, w);
    }
    c.edges.clear();
    for (auto ep = boost::edges(c.g); ep.first != ep.second; ++ep.first) c.edges.push_back(*ep.first);
}

static void run_alg(const std::string &alg, Toks &t, std::ostream &out) {
    typedef boost::graph_traits<DGraph>::edge_descriptor Edge;
    GCase<DGraph> c; read_graph_f(t, c);
    print_oracles(out, c);
    std::list<std::list<Edge>> cycles;
    auto wm = boost::get(boost::edge_weight, c.g);
    double ret;
    if (alg == "signed") ret = parmcb::mcb_sva_signed(c.g, wm, std::back_inserter(cycles));
    else if (alg == "fvs") ret = parmcb::mcb_sva_fvs_trees(c.g, wm, std::back_inserter(cycles));
    else if (alg == "iso") ret = parmcb::mcb_sva_iso_trees(c.g, wm, std::back_inserter(cycles));
    else if (alg == "signed_tbb") ret = parmcb::mcb_sva_signed_tbb(c.g, wm, std::back_inserter(cycles));       // real oneTBB, default arena
    else if (alg == "fvs_tbb") ret = parmcb::mcb_sva_fvs_trees_tbb(c.g, wm, std::back_inserter(cycles));
    else if (alg == "iso_tbb") ret = parmcb::mcb_sva_iso_trees_tbb(c.g, wm, std::back_inserter(cycles));
    else throw std::runtime_error("bad alg");
    out << " RET " << hex(ret);
    print_cycles(out, c, cycles);
}

static void run_bidir(Toks &t, std::ostream &out) {
    typedef boost::graph_traits<DGraph>::edge_descriptor Edge;
    bool use_hidden = t.next_sz() != 0;
    size_t s = t.next_sz(); bool spos = t.next_sz() != 0; size_t tg = t.next_sz(); bool tpos = t.next_sz() != 0;
    std::string lim = t.next();
    auto sg = t.next_szlist(); auto hd = t.next_szlist();
    GCase<DGraph> c; read_graph_f(t, c);
    std::set<Edge> signed_edges, hidden;
    for (auto i : sg) signed_edges.insert(c.edges.at(i));
    for (auto i : hd) hidden.insert(c.edges.at(i));
    bool use_limit = lim != "-";
    double limit = use_limit ? parse_hex(lim) : 0.0;
    auto res = parmcb::bidirectional_signed_dijkstra(c.g, boost::get(boost::edge_weight, c.g), signed_edges, hidden, use_hidden,
                                                     s, spos, tg, tpos, use_limit, limit);
    if (!std::get<2>(res)) { out << "NF"; return; }
    out << "F " << hex(std::get<1>(res)) << " " << std::get<0>(res).size();
    std::vector<size_t> ids; for (auto &e : std::get<0>(res)) ids.push_back(c.id(e));
    std::sort(ids.begin(), ids.end());
    for (auto i : ids) out << " " << i;
}

int main() {
    return run_cases([](Toks &t, std::ostream &out) {
        std::string kind = t.next();
        if (kind == "A") { std::string alg = t.next(); run_alg(alg, t, out); }
        else if (kind == "B") run_bidir(t, out);
        else throw std::runtime_error("bad kind");
    });
}
