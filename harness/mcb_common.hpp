// mcb_common.hpp — helpers shared by the harnesses that run whole MCB algorithms: recovery of the oracles the
// models need (BFS root order of spanning_forest, pointer order of the edge descriptors), canonical printing.
#ifndef VERIF_MCB_COMMON_HPP
#define VERIF_MCB_COMMON_HPP
#include "graph.hpp"
#include <parmcb/detail/spanning_forest.hpp>

// order in which detail::spanning_forest takes its BFS roots (iteration order of std::unordered_set),
// recovered from the emission order: the BFS parent of a tree's first edge is the root. Isolated vertices follow.
template<class G> std::vector<size_t> recover_roots(const GCase<G> &c) {
    typedef typename boost::graph_traits<G>::edge_descriptor Edge;
    size_t n = boost::num_vertices(c.g);
    std::vector<Edge> emitted;
    parmcb::detail::spanning_forest(c.g, std::back_inserter(emitted));
    std::vector<bool> seen(n, false); std::vector<size_t> roots;
    for (auto &e : emitted) {
        size_t s = boost::source(e, c.g), tg = boost::target(e, c.g);
        if (!seen[s]) { roots.push_back(s); seen[s] = true; }
        seen[tg] = true;
    }
    for (size_t v = 0; v < n; v++) roots.push_back(v);
    return roots;
}

// rank of every edge id in the order std::set<Edge> iterates (operator< of edge descriptors = address of the property)
template<class G> std::vector<size_t> pointer_ranks(const GCase<G> &c) {
    typedef typename boost::graph_traits<G>::edge_descriptor Edge;
    std::set<Edge> s(c.edges.begin(), c.edges.end());
    std::vector<size_t> rank(c.edges.size(), 0); size_t r = 0;
    for (auto &e : s) rank[c.id(e)] = r++;
    return rank;
}

template<class G> void print_oracles(std::ostream &out, const GCase<G> &c) {
    out << "ROOTS";
    for (auto r : recover_roots(c)) out << " " << r;
    out << " EORD";
    for (auto r : pointer_ranks(c)) out << " " << r;
}

// cycles as emitted: "N <count> CYC <len> <ids in emitted order> <len> ..." ; an id that is not an edge of g prints as ?
template<class G, class Cycles> void print_cycles(std::ostream &out, const GCase<G> &c, const Cycles &cycles) {
#if defined(__SANITIZE_ADDRESS__)
    // sanitizer builds (C07): USE every descriptor handed back by the library with the caller's property map, as a caller
    // would after the call returned; a descriptor referring to storage the library already released is reported by ASan
    {
        double touched = 0;
        for (auto &cyc : cycles) for (auto &e : cyc) touched += (double) boost::get(boost::edge_weight, c.g, e);
        if (touched < 0) out << " ";
    }
#endif
    out << " N " << cycles.size() << " CYC";
    for (auto &cyc : cycles) {
        out << " " << cyc.size();
        for (auto &e : cyc) { size_t i = c.id(e); if (i == (size_t) -1) out << " ?"; else out << " " << i; }
    }
}
#endif
