// c03_trees.cpp — the TBB lookup of the tree-based exact variants (ShortestOddCycleLookup<..., true>, CandidateCycleBuilder with
// its weight-limit exits, mcb_sva_fvs_trees_tbb / mcb_sva_iso_trees_tbb), parmcb headers UNCHANGED, compiled against the
// controllable fake TBB (harness/shim/tbb, build_cpp(..., shim=True)).  Exact tie to coq/theories/ParTreesModel.v.
//   (weight types: D = double w*2^scale, I = int, L = long long — 64-bit integers, values above 2^53 included)
//   L <fvs|iso|horton> <D|I|L> <scale> <nbits> <bitstring|-> <shuffle> <ncalls> (<k> ids)*ncalls <graph>
//       builds trees + candidates with the real builder; shuffle = 0: std::sort with the lambda of _mcb_sva_trees (what the entry
//       points do), shuffle = s > 0: the emission order rearranged by a Fisher-Yates shuffle driven by an LCG seeded with s and
//       sorted_cycles = false (the TBB lookup ignores the flag and must not rely on any order); constructs ONE
//       ShortestOddCycleLookup<G, WMap, true> and calls it on the signed sets one after the other under the bit stream:
//       TREES k src* ARR n pos* CAND n (root edge weight)* CALLS m (R found weight|MAX k sorted-ids P bits-consumed)*
//       (ARR = position in the builder's emission order of every element of the sorted vector)
//   B <fvs|iso|horton> <D|I|L> <scale> <k> ids <graph>
//       direct calls of CandidateCycleBuilder::operator() after a sequential update_parities of every tree, for every
//       candidate (emission order) and the limits none, w-1, w, w+1, w(e)-1, w(e), w/2 (w = recorded weight, units):
//       TREES k src* CAND n (root edge weight)* Q m (i use limit found weight k sorted-ids)*
//   W <fvs|iso> <D|I|L> <scale> <nbits> <bitstring|-> <graph>
//       the arrangement std::sort leaves (same builder + same std::sort on the same graph object: deterministic), then the
//       entry point mcb_sva_<x>_trees_tbb under the bit stream:
//       TREES k src* ARR n pos* ROOTS .. EORD .. RET w N n CYC (len sorted-ids)* POS bits-consumed
#ifndef VERIF_FAKE_TBB
#include <tbb/tbb.h>
#endif
#ifndef VERIF_FAKE_TBB
#error "c03_trees.cpp must be compiled against harness/shim (lib.build_cpp(..., shim=True))"
#endif
#include "mcb_common.hpp"
#include <parmcb/parmcb_sva_trees.hpp>

static std::vector<bool> read_bits(Toks &t) {
    size_t nb = t.next_sz(); std::string s = t.next();
    std::vector<bool> b;
    if (s != "-") for (char ch : s) { if (ch != '0' && ch != '1') throw std::runtime_error("bad bit"); b.push_back(ch == '1'); }
    if (b.size() != nb) throw std::runtime_error("bit count mismatch");
    return b;
}

template<class G> struct Coll {
    typedef typename boost::property_map<G, boost::edge_weight_t>::type WMap;
    typedef typename boost::graph_traits<G>::edge_descriptor Edge;
    std::vector<parmcb::SPTree<G, WMap>> trees;
    std::vector<parmcb::CandidateCycle<G, WMap>> cycles;
    std::vector<size_t> arr;           // after sort_like_entry_point(): emission position of every element
};

template<class G, class Builder> void build(GCase<G> &c, typename Coll<G>::WMap wm, Coll<G> &co) {
    Builder b;
    b(c.g, wm, co.trees, co.cycles);
}
template<class G> void build_by_name(const std::string &bld, GCase<G> &c, typename Coll<G>::WMap wm, Coll<G> &co) {
    typedef typename Coll<G>::WMap WMap;
    if (bld == "fvs") build<G, parmcb::detail::FVSCyclesBuilder<G, WMap>>(c, wm, co);
    else if (bld == "iso") build<G, parmcb::detail::ISOCyclesBuilder<G, WMap>>(c, wm, co);
    else if (bld == "horton") build<G, parmcb::detail::HortonCyclesBuilder<G, WMap>>(c, wm, co);
    else throw std::runtime_error("bad builder");
}
// the std::sort of _mcb_sva_trees, same lambda; records where every element came from ((tree, edge) is a key)
template<class G> void sort_like_entry_point(GCase<G> &c, Coll<G> &co) {
    std::map<std::pair<size_t, size_t>, size_t> where;
    for (size_t i = 0; i < co.cycles.size(); i++) {
        auto key = std::make_pair(co.cycles[i].tree(), c.id(co.cycles[i].edge()));
        if (where.count(key)) throw std::runtime_error("duplicate candidate key");
        where[key] = i;
    }
    std::sort(co.cycles.begin(), co.cycles.end(), [](const auto &a, const auto &b) {
        return a.weight() < b.weight();
    });
    co.arr.clear();
    for (auto &cc : co.cycles) co.arr.push_back(where.at(std::make_pair(cc.tree(), c.id(cc.edge()))));
}
// an arbitrary (unsorted) arrangement: Fisher-Yates with an explicit LCG, so that the case determines it
template<class G> void shuffle_cycles(GCase<G> &c, Coll<G> &co, unsigned long long seed) {
    std::vector<size_t> pos(co.cycles.size());
    for (size_t i = 0; i < pos.size(); i++) pos[i] = i;
    unsigned long long x = seed;
    for (size_t i = pos.size(); i > 1; i--) {
        x = x * 6364136223846793005ULL + 1442695040888963407ULL;
        size_t j = (size_t) ((x >> 33) % i);
        std::swap(pos[i - 1], pos[j]);
    }
    std::vector<parmcb::CandidateCycle<G, typename Coll<G>::WMap>> out;
    for (auto p : pos) out.push_back(co.cycles[p]);
    co.cycles = out;
    co.arr = pos;
}
template<class G> void print_trees(std::ostream &out, Coll<G> &co) {
    out << "TREES " << co.trees.size();
    for (auto &t : co.trees) out << " " << t.source();
}
template<class G> void print_arr(std::ostream &out, Coll<G> &co) {
    out << " ARR " << co.arr.size();
    for (auto i : co.arr) out << " " << i;
}
template<class G> void print_cands(std::ostream &out, GCase<G> &c, Coll<G> &co) {
    out << " CAND " << co.cycles.size();
    for (auto &cc : co.cycles)
        out << " " << co.trees.at(cc.tree()).source() << " " << c.id(cc.edge()) << " " << exact_weight(cc.weight(), c.scale);
}
template<class G, class Set> void print_set(std::ostream &out, GCase<G> &c, const Set &s) {
    std::vector<size_t> ids;
    for (auto &e : s) ids.push_back(c.id(e));
    std::sort(ids.begin(), ids.end());
    out << " " << ids.size();
    for (auto i : ids) { if (i == (size_t) -1) out << " ?"; else out << " " << i; }
}

template<class G> void run_lookup(const std::string &bld, const std::vector<bool> &bits, Toks &t, int scale, std::ostream &out) {
    typedef typename Coll<G>::WMap WMap;
    typedef typename boost::graph_traits<G>::edge_descriptor Edge;
    typedef typename boost::property_traits<WMap>::value_type W;
    unsigned long long shuffle = (unsigned long long) t.next_ll();
    size_t ncalls = t.next_sz();
    std::vector<std::vector<size_t>> sets;
    for (size_t i = 0; i < ncalls; i++) sets.push_back(t.next_szlist());
    GCase<G> c; read_graph(t, c, scale);
    WMap wm = boost::get(boost::edge_weight, c.g);
    Coll<G> co;
    verif_sched::reset(std::vector<bool>());
    build_by_name(bld, c, wm, co);
    if (shuffle == 0) sort_like_entry_point(c, co); else shuffle_cycles(c, co, shuffle);
    print_trees(out, co); print_arr(out, co); print_cands(out, c, co);
    const bool sorted_cycles = shuffle == 0;
    parmcb::ShortestOddCycleLookup<G, WMap, true> lookup(c.g, wm, co.trees, co.cycles, sorted_cycles);
    verif_sched::reset(bits);
    out << " CALLS " << ncalls;
    for (auto &ids : sets) {
        std::set<Edge> signed_edges;
        for (auto i : ids) signed_edges.insert(c.edges.at(i));
        std::tuple<std::set<Edge>, W, bool> best = lookup(signed_edges);
        out << " R " << (std::get<2>(best) ? 1 : 0) << " ";
        if (std::get<1>(best) == (std::numeric_limits<W>::max)()) out << "MAX"; else out << exact_weight(std::get<1>(best), c.scale);
        print_set(out, c, std::get<0>(best));
        out << " P " << verif_sched::state().pos;
    }
}

template<class G> void run_builder_calls(const std::string &bld, Toks &t, int scale, std::ostream &out) {
    typedef typename Coll<G>::WMap WMap;
    typedef typename boost::graph_traits<G>::edge_descriptor Edge;
    typedef typename boost::property_traits<WMap>::value_type W;
    std::vector<size_t> ids = t.next_szlist();
    GCase<G> c; read_graph(t, c, scale);
    WMap wm = boost::get(boost::edge_weight, c.g);
    Coll<G> co;
    verif_sched::reset(std::vector<bool>());
    build_by_name(bld, c, wm, co);
    print_trees(out, co); print_cands(out, c, co);
    std::set<Edge> signed_edges;
    for (auto i : ids) signed_edges.insert(c.edges.at(i));
    for (size_t i = 0; i < co.trees.size(); i++) co.trees[i].update_parities(signed_edges);
    parmcb::CandidateCycleBuilder<G, WMap> builder(c.g, wm);
    out << " Q " << 7 * co.cycles.size();
    for (size_t i = 0; i < co.cycles.size(); i++) {
        // the recorded weight in the case's units: integral weight types exactly (a 64-bit weight above 2^53 must not pass through double)
        long long w = std::is_integral<W>::value ? (long long) co.cycles[i].weight() : std::llround(std::ldexp((double) co.cycles[i].weight(), -c.scale));
        long long we = c.iw.at(c.id(co.cycles[i].edge()));
        const long long lims[7] = { 0, w - 1, w, w + 1, we - 1, we, w / 2 };
        for (int q = 0; q < 7; q++) {
            bool use = q != 0;
            W lim = std::is_integral<W>::value ? (W) lims[q] : (W) std::ldexp((double) lims[q], c.scale);
            auto r = builder(co.trees, co.cycles[i], signed_edges, use, lim);
            out << " " << i << " " << (use ? 1 : 0) << " " << lims[q] << " " << (std::get<2>(r) ? 1 : 0) << " " << exact_weight(std::get<1>(r), c.scale);
            print_set(out, c, std::get<0>(r));
        }
    }
}

template<class G> void run_whole(const std::string &bld, const std::vector<bool> &bits, Toks &t, int scale, std::ostream &out) {
    typedef typename Coll<G>::WMap WMap;
    typedef typename boost::graph_traits<G>::edge_descriptor Edge;
    typedef typename boost::property_traits<WMap>::value_type W;
    GCase<G> c; read_graph(t, c, scale);
    WMap wm = boost::get(boost::edge_weight, c.g);
    {
        Coll<G> co;
        verif_sched::reset(std::vector<bool>());
        build_by_name(bld, c, wm, co);
        sort_like_entry_point(c, co);
        print_trees(out, co); print_arr(out, co);
    }
    out << " ";
    print_oracles(out, c);
    std::list<std::list<Edge>> cycles;
    verif_sched::reset(bits);
    W ret;
    if (bld == "fvs") ret = parmcb::mcb_sva_fvs_trees_tbb(c.g, wm, std::back_inserter(cycles));
    else if (bld == "iso") ret = parmcb::mcb_sva_iso_trees_tbb(c.g, wm, std::back_inserter(cycles));
    else throw std::runtime_error("bad entry point");
    size_t pos = verif_sched::state().pos;
    out << " RET ";
    if (ret == (std::numeric_limits<W>::max)()) out << "MAX"; else out << exact_weight(ret, scale);
    out << " N " << cycles.size() << " CYC";
    for (auto &cyc : cycles) print_set(out, c, cyc);
    out << " POS " << pos;
}

int main() {
    return run_cases([](Toks &t, std::ostream &out) {
        std::string kind = t.next();
        std::string bld = t.next();
        std::string ty = t.next(); int scale = (int) t.next_ll();
        if (ty != "D") scale = 0;
        if (kind == "L") {
            std::vector<bool> bits = read_bits(t);
            if (ty == "D") run_lookup<DGraph>(bld, bits, t, scale, out);
            else if (ty == "L") run_lookup<LGraph>(bld, bits, t, scale, out);
            else if (ty == "I") run_lookup<IGraph>(bld, bits, t, scale, out);
            else throw std::runtime_error("bad weight type");
        } else if (kind == "B") {
            if (ty == "D") run_builder_calls<DGraph>(bld, t, scale, out);
            else if (ty == "L") run_builder_calls<LGraph>(bld, t, scale, out);
            else if (ty == "I") run_builder_calls<IGraph>(bld, t, scale, out);
            else throw std::runtime_error("bad weight type");
        } else if (kind == "W") {
            std::vector<bool> bits = read_bits(t);
            if (ty == "D") run_whole<DGraph>(bld, bits, t, scale, out);
            else if (ty == "L") run_whole<LGraph>(bld, bits, t, scale, out);
            else if (ty == "I") run_whole<IGraph>(bld, bits, t, scale, out);
            else throw std::runtime_error("bad weight type");
        } else throw std::runtime_error("bad kind");
    });
}
