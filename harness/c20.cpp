// c20.cpp — correspondence harness for property C20 (the concurrency knob), linked with the REAL oneTBB (-ltbb).
//
// case   : "T <k> op_1 .. op_k [W]"   op = "S n"      parmcb::set_global_tbb_concurrency(n)   (the real function)
//                                          "ST n"     the same call made by a helper thread that exits before the next operation
//                                          "SK n"     the same call made by one worker thread that stays alive to the end of the case
//                                          "C slot v" slot = new global_control(max_allowed_parallelism, v)
//                                          "D slot"   delete slot
//                                     W  = afterwards run a tbb::parallel_for and count the distinct threads that execute
//                                          its body (observation "number of worker threads"; only an upper-bound check)
// output : "DEF <d> BHW <b> A a_1 .. a_i [BADSLOT|ABORT|CRASH sig=<n>] [W <threads>]"
//          d   = tbb::global_control::active_value(max_allowed_parallelism) before the first operation (the runtime's default;
//                passed to the model as a parameter, never hard-coded)
//          b   = boost::thread::hardware_concurrency() (what the demos substitute for --cores 0)
//          a_j = active_value after the j-th operation
//
// Every case runs in a fresh child process (fork before any use of TBB in the parent), because the repaired knob keeps
// its control in a function-local static that cannot be cleared from outside; this also turns the runtime's release
// assertion on value 0 into an observable "ABORT".
// util.hpp defines set_global_tbb_concurrency in the header (non-inline before c20-fix-knob): this is the only TU.
#if defined(__SANITIZE_ADDRESS__)
#include <sanitizer/lsan_interface.h>
#endif
#include "common.hpp"
#include <unistd.h>
#include <sys/wait.h>
#include <sys/resource.h>
#include <signal.h>
#include <thread>
#include <mutex>
#include <condition_variable>
#include <functional>
#include <chrono>
#include <boost/thread.hpp>
#include <parmcb/config.hpp>
#include <parmcb/util.hpp>

typedef oneapi::tbb::global_control gc_t;

static std::size_t active_now() { return gc_t::active_value(gc_t::max_allowed_parallelism); }

static std::size_t count_threads() {
    std::mutex mu;
    std::set<std::thread::id> seen;
    const int chunks = 8 * (int) std::max<std::size_t>(1, boost::thread::hardware_concurrency());
    tbb::parallel_for(tbb::blocked_range<int>(0, chunks, 1), [&](const tbb::blocked_range<int> &) {
        { std::lock_guard<std::mutex> lk(mu); seen.insert(std::this_thread::get_id()); }
        auto until = std::chrono::steady_clock::now() + std::chrono::milliseconds(2);
        while (std::chrono::steady_clock::now() < until) { }
    }, tbb::simple_partitioner());
    return seen.size();
}

struct Out {                      // unbuffered writer to the pipe: what was written survives an abort of the child
    int fd;
    void put(const std::string &s) { size_t o = 0; while (o < s.size()) { ssize_t r = ::write(fd, s.data() + o, s.size() - o); if (r <= 0) _exit(3); o += (size_t) r; } }
};

// one long-lived worker thread executing posted calls (op SK): alive until the end of the case
struct Worker {
    std::thread th; std::mutex mu; std::condition_variable cv; std::function<void()> job; bool has = false, done = false, quit = false;
    void start() { if (!th.joinable()) th = std::thread([this] { std::unique_lock<std::mutex> lk(mu); for (;;) { cv.wait(lk, [this] { return has || quit; }); if (quit) return; job(); has = false; done = true; cv.notify_all(); } }); }
    void call(std::function<void()> f) { start(); std::unique_lock<std::mutex> lk(mu); job = f; has = true; done = false; cv.notify_all(); cv.wait(lk, [this] { return done; }); }
    void stop() { if (th.joinable()) { { std::lock_guard<std::mutex> lk(mu); quit = true; } cv.notify_all(); th.join(); } }
};

static void run_case(Toks &t, Out &out) {
    Worker worker;
    if (t.next() != "T") throw std::runtime_error("case: expected T");
    size_t k = t.next_sz();
    out.put("DEF " + std::to_string(active_now()) + " BHW " + std::to_string(boost::thread::hardware_concurrency()) + " A");
    std::map<size_t, gc_t*> slots;
    for (size_t j = 0; j < k; j++) {
        std::string o = t.next();
        if (o == "S") {
            std::size_t n = (std::size_t) std::stoull(t.next());
            parmcb::set_global_tbb_concurrency(n);
        } else if (o == "ST") {       // the call made by a helper thread that exits before the next operation
            std::size_t n = (std::size_t) std::stoull(t.next());
            std::thread h([n] { parmcb::set_global_tbb_concurrency(n); }); h.join();
        } else if (o == "SK") {       // the call made by a worker thread that stays alive
            std::size_t n = (std::size_t) std::stoull(t.next());
            worker.call([n] { parmcb::set_global_tbb_concurrency(n); });
        } else if (o == "C") {
            size_t s = t.next_sz(); std::size_t v = (std::size_t) std::stoull(t.next());
            if (slots.count(s)) { out.put(" BADSLOT"); for (auto &kv : slots) delete kv.second; worker.stop(); return; }
            slots[s] = new gc_t(gc_t::max_allowed_parallelism, v);
        } else if (o == "D") {
            size_t s = t.next_sz();
            if (!slots.count(s)) { out.put(" BADSLOT"); for (auto &kv : slots) delete kv.second; worker.stop(); return; }
            delete slots[s]; slots.erase(s);
        } else throw std::runtime_error("case: bad op " + o);
        out.put(" " + std::to_string(active_now()));
    }
    if (t.more() && t.next() == "W") out.put(" W " + std::to_string(count_threads()));
    worker.stop();
    for (auto &kv : slots) delete kv.second;      // the harness's own controls (so that a leak report can only come from the library)
}

int main() {
    std::string line;
    while (std::getline(std::cin, line)) {
        if (line.empty() || line[0] == '#') continue;
        int fds[2];
        if (pipe(fds) != 0) { std::cout << "IMPL-EXCEPTION pipe" << std::endl; continue; }
        std::cout.flush();
        pid_t pid = fork();
        if (pid < 0) { std::cout << "IMPL-EXCEPTION fork" << std::endl; close(fds[0]); close(fds[1]); continue; }
        if (pid == 0) {
            close(fds[0]);
            struct rlimit rl; rl.rlim_cur = rl.rlim_max = 0; setrlimit(RLIMIT_CORE, &rl);
            Out out{fds[1]};
            try { Toks t(line); run_case(t, out); }
            catch (const std::exception &e) { out.put(std::string(" IMPL-EXCEPTION ") + e.what()); }
            catch (...) { out.put(" IMPL-EXCEPTION unknown"); }
            close(fds[1]);
#if defined(__SANITIZE_ADDRESS__)
            __lsan_do_leak_check();  // sanitizer builds (C07): _exit skips the at-exit leak check, so run it here
#endif
            _exit(0);               // no static destructors: the parent owns stdout
        }
        close(fds[1]);
        std::string res; char buf[4096]; ssize_t r;
        while ((r = read(fds[0], buf, sizeof buf)) > 0) res.append(buf, (size_t) r);
        close(fds[0]);
        int st = 0; waitpid(pid, &st, 0);
        if (WIFSIGNALED(st)) res += (WTERMSIG(st) == SIGABRT) ? " ABORT" : (" CRASH sig=" + std::to_string(WTERMSIG(st)));
        else if (WIFEXITED(st) && WEXITSTATUS(st) != 0) res += " CRASH rc=" + std::to_string(WEXITSTATUS(st));
        for (char &c : res) if (c == '\n') c = ' ';
        std::cout << res << "\n";
    }
    std::cout.flush();
    return 0;
}
