// tbb/global_control.h of the controllable fake TBB: global_control objects are recorded (so that a harness can observe
// the value in force through active_value) but have no effect: the shim always runs on the calling thread and the
// "number of workers" is irrelevant once the schedule is explicit (verif_sched.h).  Lifetime semantics as in oneTBB: the
// limit is in force while the object lives; of several live objects the smallest max_allowed_parallelism wins.
#ifndef VERIF_TBB_GLOBAL_CONTROL_H
#define VERIF_TBB_GLOBAL_CONTROL_H
#include <cstddef>
#include <map>
#include <set>
#include <utility>
#include "version.h"

namespace tbb {
    class global_control {
    public:
        enum parameter { max_allowed_parallelism, thread_stack_size, terminate_on_exception, scheduler_handle, parameter_max };
        global_control(parameter p, std::size_t value) : my_param(p), my_value(value) { live().insert(std::make_pair((int) p, value)); }
        ~global_control() {
            auto &l = live();
            auto it = l.find(std::make_pair((int) my_param, my_value));
            if (it != l.end()) l.erase(it);
        }
        static std::size_t active_value(parameter p) {
            std::size_t best = (p == max_allowed_parallelism) ? 1 : 0;   // default: the shim has exactly one thread
            bool any = false;
            for (auto &kv : live()) if (kv.first == (int) p) {
                if (!any) { best = kv.second; any = true; }
                else if (p == max_allowed_parallelism ? kv.second < best : kv.second > best) best = kv.second;
            }
            return best;
        }
    private:
        parameter my_param;
        std::size_t my_value;
        static std::multiset<std::pair<int, std::size_t>>& live() { static std::multiset<std::pair<int, std::size_t>> s; return s; }
        global_control(const global_control&);
        global_control& operator=(const global_control&);
    };
}
namespace oneapi {
    namespace tbb = ::tbb;
}
#endif
