// tbb/task_group.h of the controllable fake TBB: task_group::run(f) executes f immediately on the calling thread (one
// legal schedule: every task finishes before the next is spawned); wait() has nothing left to wait for.  parmcb includes
// this header but never creates a task_group.
#ifndef VERIF_TBB_TASK_GROUP_H
#define VERIF_TBB_TASK_GROUP_H
namespace tbb {
    enum task_group_status { not_complete, complete, canceled };
    class task_group {
    public:
        task_group() { }
        template<typename F> void run(const F &f) { f(); }
        template<typename F> task_group_status run_and_wait(const F &f) { f(); return complete; }
        task_group_status wait() { return complete; }
        void cancel() { }
    private:
        task_group(const task_group&);
        task_group& operator=(const task_group&);
    };
}
#endif
