// tbb/parallel_for.h of the controllable fake TBB.
// parallel_for(range, body [, partitioner]): builds the schedule tree of `range` from verif_sched::bits (pre-order, see
// verif_sched.h) and then calls body(chunk) for every leaf, sequentially, in the order the tree prescribes (at a split
// node the right part first iff its right-first bit is set).  An empty range does nothing and reads no bit.
// parallel_for(first, last [, step], f): the index form, as a parallel_for over blocked_range<Index>.
#ifndef VERIF_TBB_PARALLEL_FOR_H
#define VERIF_TBB_PARALLEL_FOR_H
#include "verif_sched.h"
#include "blocked_range.h"
#include "partitioner.h"

namespace tbb {

    template<typename Range, typename Body>
    void parallel_for(const Range &range, const Body &body) {
        verif_sched::State &st = verif_sched::state();
        st.n_for++;
        if (range.empty()) return;
        std::size_t pos0 = st.pos;
        auto tree = verif_sched::build(range);
        verif_sched::trace_construct('f', (std::size_t) range.size(), pos0);
        st.depth++;
        try { verif_sched::exec_for(*tree, body); } catch (...) { st.depth--; if (st.depth == 0) st.dirty.clear(); throw; }
        st.depth--;
        if (st.depth == 0) verif_sched::end_outermost_for();
    }
    template<typename Range, typename Body, typename Partitioner>
    void parallel_for(const Range &range, const Body &body, const Partitioner&) {
        parallel_for(range, body);
    }
    template<typename Range, typename Body>
    void parallel_for(const Range &range, const Body &body, affinity_partitioner&) {
        parallel_for(range, body);
    }

    template<typename Index, typename Function>
    void parallel_for(Index first, Index last, Index step, const Function &f) {
        if (!(first < last)) { verif_sched::state().n_for++; return; }
        Index count = (last - first - Index(1)) / step + Index(1);
        parallel_for(blocked_range<Index>(Index(0), count), [&](const blocked_range<Index> &r) {
            for (Index i = r.begin(); i < r.end(); ++i) f(first + i * step);
        });
    }
    template<typename Index, typename Function>
    void parallel_for(Index first, Index last, const Function &f) {
        parallel_for(first, last, Index(1), f);
    }

}
#endif
