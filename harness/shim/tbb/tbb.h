// tbb/tbb.h of the controllable fake TBB ("harness/shim"): the subset of oneTBB that the parmcb headers use —
// blocked_range, parallel_for, parallel_reduce, concurrent_vector, task_group, global_control — with every parallel
// construct executed sequentially under the explicit schedule verif_sched::bits (semantics: verif_sched.h).
// `oneapi::tbb` is an alias of `tbb`.  No library is needed (-ltbb is not linked).
#ifndef VERIF_TBB_TBB_H
#define VERIF_TBB_TBB_H
#include "version.h"
#include "verif_sched.h"
#include "blocked_range.h"
#include "partitioner.h"
#include "parallel_for.h"
#include "parallel_reduce.h"
#include "concurrent_vector.h"
#include "task_group.h"
#include "task_arena.h"
#include "info.h"
#include "global_control.h"
namespace oneapi {
    namespace tbb = ::tbb;
}
#endif
