// tbb/parallel_reduce.h of the controllable fake TBB.
// parallel_reduce(range, identity, body, join [, partitioner])  — functional form, oneTBB 2021 semantics made explicit:
//     the schedule tree of `range` is built from verif_sched::bits (pre-order, see verif_sched.h), then
//         eval(Run r,    acc) = body(r, acc)
//         eval(Seq a b,  acc) = eval(b, eval(a, acc))                     (the same body object keeps accumulating)
//         eval(Fork a b, acc) = join(eval(a, acc), eval(b, identity))     (a stolen right part starts from the identity)
//     and the result is eval(tree, identity).  With the right-first bit of a Fork the right part is executed first (the
//     join is still join(left, right)).  An empty range returns `identity` without calling anything.
// parallel_reduce(range, body [, partitioner]) — imperative form: Seq continues with the same Body object, Fork constructs
//     Body right(left, tbb::split()) and ends with left.join(right).
#ifndef VERIF_TBB_PARALLEL_REDUCE_H
#define VERIF_TBB_PARALLEL_REDUCE_H
#include "verif_sched.h"
#include "blocked_range.h"
#include "partitioner.h"

namespace tbb {

    template<typename Range, typename Value, typename RealBody, typename Reduction>
    Value parallel_reduce(const Range &range, const Value &identity, const RealBody &real_body, const Reduction &reduction) {
        verif_sched::state().n_reduce++;
        if (range.empty()) return identity;
        std::size_t pos0 = verif_sched::state().pos;
        auto tree = verif_sched::build(range);
        verif_sched::trace_construct('r', (std::size_t) range.size(), pos0);
        return verif_sched::exec_reduce(*tree, identity, identity, real_body, reduction);
    }
    template<typename Range, typename Value, typename RealBody, typename Reduction, typename Partitioner>
    Value parallel_reduce(const Range &range, const Value &identity, const RealBody &real_body, const Reduction &reduction,
            const Partitioner&) {
        return parallel_reduce(range, identity, real_body, reduction);
    }
    template<typename Range, typename Value, typename RealBody, typename Reduction>
    Value parallel_reduce(const Range &range, const Value &identity, const RealBody &real_body, const Reduction &reduction,
            affinity_partitioner&) {
        return parallel_reduce(range, identity, real_body, reduction);
    }

    template<typename Range, typename Body>
    void parallel_reduce(const Range &range, Body &body) {
        verif_sched::state().n_reduce++;
        if (range.empty()) return;
        std::size_t pos0 = verif_sched::state().pos;
        auto tree = verif_sched::build(range);
        verif_sched::trace_construct('r', (std::size_t) range.size(), pos0);
        verif_sched::exec_reduce_body(*tree, body);
    }
    template<typename Range, typename Body>
    void parallel_reduce(const Range &range, Body &body, const simple_partitioner&) { parallel_reduce(range, body); }
    template<typename Range, typename Body>
    void parallel_reduce(const Range &range, Body &body, const auto_partitioner&) { parallel_reduce(range, body); }
    template<typename Range, typename Body>
    void parallel_reduce(const Range &range, Body &body, const static_partitioner&) { parallel_reduce(range, body); }
    template<typename Range, typename Body>
    void parallel_reduce(const Range &range, Body &body, affinity_partitioner&) { parallel_reduce(range, body); }

}
#endif
