// tbb/version.h of the controllable fake TBB: pretends to be oneTBB 2021.8 (the installed version whose
// parallel_reduce semantics the shim reproduces), so that parmcb takes its `TBB_VERSION_MAJOR > 2020` branches.
#ifndef VERIF_TBB_VERSION_H
#define VERIF_TBB_VERSION_H
#define VERIF_FAKE_TBB 1
#define TBB_VERSION_MAJOR 2021
#define TBB_VERSION_MINOR 8
#define TBB_VERSION_PATCH 0
#define TBB_INTERFACE_VERSION 12080
#define TBB_INTERFACE_VERSION_MAJOR (TBB_INTERFACE_VERSION / 1000)
#define TBB_INTERFACE_VERSION_MINOR (TBB_INTERFACE_VERSION % 1000 / 10)
#endif
