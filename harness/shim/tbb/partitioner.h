// tbb/partitioner.h of the controllable fake TBB: partitioners are accepted and IGNORED (the schedule comes from
// verif_sched::bits, see verif_sched.h).
#ifndef VERIF_TBB_PARTITIONER_H
#define VERIF_TBB_PARTITIONER_H
namespace tbb {
    class simple_partitioner { };
    class auto_partitioner { };
    class static_partitioner { };
    class affinity_partitioner { };
}
#endif
