// tbb/info.h of the controllable fake TBB: one hardware thread.
#ifndef VERIF_TBB_INFO_H
#define VERIF_TBB_INFO_H
namespace tbb {
    namespace info {
        inline int default_concurrency() { return 1; }
    }
}
#endif
