// verif_sched.h — core of the controllable fake TBB used by the C03 correspondence check.
//
// Every parallel construct of the shim (tbb::parallel_for, tbb::parallel_reduce) is executed SEQUENTIALLY, but under an
// explicit *schedule* that is read from a global bit stream `verif_sched::bits` (set by the harness for every case with
// verif_sched::reset(); consumed cyclically; an empty stream reads as all-zero).  The extracted Coq model
// (coq/theories/SchedModel.v: tree_of_bits / eval_reduce / chunks_of) consumes the same stream in the same order, so that
// model and implementation run under the same schedule.
//
// Schedule tree of a range r (built completely, in PRE-ORDER, before anything is executed):
//     if r is not divisible (fewer than 2 elements; grain sizes and partitioners are ignored)      -> Run r     (no bit)
//     else read bit "split here?"                                              0 -> Run r     (1 bit)
//          1 -> read bit "Fork (1) or Seq (0)", read bit "right part executes before left part (1)";
//               split r in the middle as tbb::blocked_range does (left = [b, b+(e-b)/2), right = the rest);
//               build the tree of the left part, then the tree of the right part.
// An empty range executes nothing and reads no bit.
//
// parallel_for(range, body):     the leaves (chunks) are executed one after the other; at a split node the chunks of the
//                                right part come first iff its right-first bit is set (the Fork/Seq bit is read but has
//                                no meaning here).
// parallel_reduce(range, identity, body, join)   (functional form, semantics of oneTBB 2021 lambda_reduce_body):
//     eval(Run r,    acc) = body(r, acc)
//     eval(Seq a b,  acc) = eval(b, eval(a, acc))                       the same body object continues with its value
//     eval(Fork a b, acc) = join(eval(a, acc), eval(b, identity))       a split body starts from the identity;
//                                                                       always join(left, right); with the right-first
//                                                                       bit the right part is *executed* before the left
//     result = eval(tree, identity).
//
// concurrent_vector::push_back appends in execution order, so the order of concurrently pushed elements is decided by
// the schedule tree of the pushing parallel_for.  Real pushes of different tasks may interleave arbitrarily; to reach
// every insertion order the harness may give an explicit *push permutation* `verif_sched::state().push_perm`: at the
// end of the first outermost parallel_for during which exactly |push_perm| elements were pushed to a concurrent_vector,
// these elements (in push order e_0 .. e_{m-1}) are rearranged so that position j holds e_{push_perm[j]}; the
// permutation is then used up.  An invalid permutation (wrong size / not a permutation) is ignored.
//
// verif_sched::state().trace records, per parallel construct, "<f|r><length>:<bits consumed by its tree>" (the bit
// prefix is a canonical code of the tree) — coverage data for the evidence.
#ifndef VERIF_SCHED_H
#define VERIF_SCHED_H
#include <cstddef>
#include <functional>
#include <memory>
#include <string>
#include <utility>
#include <vector>

namespace tbb {
    class split { };
}

namespace verif_sched {

    struct State {
        std::vector<bool> bits;     // the schedule of the current case
        std::size_t pos = 0;        // number of bits consumed so far in the current case
        // statistics of the current case (for the evidence: "schedule with >= 1 fork")
        std::size_t n_for = 0, n_reduce = 0, n_split = 0, n_fork = 0, n_seq = 0, n_rfirst = 0, n_push = 0, n_chunks = 0;
        std::vector<std::size_t> push_perm;     // optional explicit insertion order (see above); used once
        bool perm_applied = false;
        int depth = 0;                          // nesting depth of running parallel_for constructs
        // concurrent_vectors pushed to during the running outermost parallel_for: (vector, size before, permute callback)
        struct Dirty { const void *vec; std::size_t first; std::function<void(std::size_t, const std::vector<std::size_t>&)> permute; std::function<std::size_t()> size; };
        std::vector<Dirty> dirty;
        bool tracing = false;
        std::vector<std::string> trace;
    };
    inline State& state() {
        static State s;
        return s;
    }
    // called by the harness at the beginning of every case
    inline void reset(const std::vector<bool> &b, const std::vector<std::size_t> &push_perm = std::vector<std::size_t>(),
            bool tracing = false) {
        State &s = state();
        s = State();
        s.bits = b;
        s.push_perm = push_perm;
        s.tracing = tracing;
    }
    inline bool next_bit() {
        State &s = state();
        bool b = s.bits.empty() ? false : (bool) s.bits[s.pos % s.bits.size()];
        s.pos++;
        return b;
    }
    inline bool valid_perm(const std::vector<std::size_t> &p, std::size_t m) {
        if (p.size() != m) return false;
        std::vector<bool> seen(m, false);
        for (std::size_t x : p) { if (x >= m || seen[x]) return false; seen[x] = true; }
        return true;
    }
    // called when an outermost parallel_for has finished
    inline void end_outermost_for() {
        State &s = state();
        if (!s.push_perm.empty() && !s.perm_applied) {
            bool used = false;
            for (auto &d : s.dirty) {
                std::size_t m = d.size() - d.first;
                if (valid_perm(s.push_perm, m)) { d.permute(d.first, s.push_perm); used = true; }
            }
            if (used) s.perm_applied = true;
        }
        s.dirty.clear();
    }
    // records the tree code of a construct: the bits consumed while building its tree
    inline void trace_construct(char kind, std::size_t len, std::size_t pos0) {
        State &s = state();
        if (!s.tracing) return;
        std::string t(1, kind);
        t += std::to_string(len); t += ':';
        if (s.pos == pos0) t += '-';
        for (std::size_t i = pos0; i < s.pos; i++) t += (s.bits.empty() ? false : (bool) s.bits[i % s.bits.size()]) ? '1' : '0';
        s.trace.push_back(t);
    }

    template<class Range>
    struct Node {
        Range r;
        bool leaf = true, fork = false, rfirst = false;
        std::unique_ptr<Node> a, b;
        explicit Node(const Range &rr) : r(rr) { }
    };

    // pre-order construction of the schedule tree, consuming bits
    template<class Range>
    std::unique_ptr<Node<Range>> build(const Range &r) {
        std::unique_ptr<Node<Range>> n(new Node<Range>(r));
        if (r.is_divisible() && next_bit()) {
            State &s = state();
            n->leaf = false;
            n->fork = next_bit();
            n->rfirst = next_bit();
            s.n_split++;
            if (n->fork) s.n_fork++; else s.n_seq++;
            if (n->rfirst) s.n_rfirst++;
            Range left(r);
            Range right(left, tbb::split());
            n->a = build(left);
            n->b = build(right);
        } else {
            state().n_chunks++;
        }
        return n;
    }

    template<class Range, class Body>
    void exec_for(const Node<Range> &n, const Body &body) {
        if (n.leaf) {
            body(n.r);
        } else if (n.rfirst) {
            exec_for(*n.b, body);
            exec_for(*n.a, body);
        } else {
            exec_for(*n.a, body);
            exec_for(*n.b, body);
        }
    }

    template<class Range, class Value, class Body, class Join>
    Value exec_reduce(const Node<Range> &n, const Value &acc, const Value &identity, const Body &body, const Join &join) {
        if (n.leaf) {
            return body(n.r, acc);
        }
        if (!n.fork) {
            Value l = exec_reduce(*n.a, acc, identity, body, join);
            return exec_reduce(*n.b, l, identity, body, join);
        }
        if (n.rfirst) {
            Value r = exec_reduce(*n.b, identity, identity, body, join);
            Value l = exec_reduce(*n.a, acc, identity, body, join);
            return join(l, r);
        }
        Value l = exec_reduce(*n.a, acc, identity, body, join);
        Value r = exec_reduce(*n.b, identity, identity, body, join);
        return join(l, r);
    }

    // imperative form: Body has operator()(const Range&), a splitting constructor and join(Body&)
    template<class Range, class Body>
    void exec_reduce_body(const Node<Range> &n, Body &body) {
        if (n.leaf) {
            body(n.r);
        } else if (!n.fork) {
            exec_reduce_body(*n.a, body);
            exec_reduce_body(*n.b, body);
        } else {
            Body right(body, tbb::split());
            if (n.rfirst) {
                exec_reduce_body(*n.b, right);
                exec_reduce_body(*n.a, body);
            } else {
                exec_reduce_body(*n.a, body);
                exec_reduce_body(*n.b, right);
            }
            body.join(right);
        }
    }
}
#endif
