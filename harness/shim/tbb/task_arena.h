// tbb/task_arena.h of the controllable fake TBB: a single implicit arena with one slot (the calling thread).
#ifndef VERIF_TBB_TASK_ARENA_H
#define VERIF_TBB_TASK_ARENA_H
namespace tbb {
    class task_arena {
    public:
        static const int automatic = -1;
        explicit task_arena(int = automatic, unsigned = 1) { }
        void initialize() { }
        void initialize(int, unsigned = 1) { }
        void terminate() { }
        bool is_active() const { return true; }
        int max_concurrency() const { return 1; }
        template<typename F> auto execute(F &&f) -> decltype(f()) { return f(); }
        template<typename F> void enqueue(F &&f) { f(); }
    };
    namespace this_task_arena {
        inline int max_concurrency() { return 1; }
        inline int current_thread_index() { return 0; }
        template<typename F> auto isolate(F &&f) -> decltype(f()) { return f(); }
    }
}
#endif
