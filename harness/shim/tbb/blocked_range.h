// tbb/blocked_range.h of the controllable fake TBB (see verif_sched.h for the semantics).
// blocked_range<T>(begin, end, grainsize = 1): half-open range over an integral type or a random-access iterator.
// The grain size is accepted and IGNORED: a range is divisible iff it has at least two elements, and the splitting
// constructor cuts it in the middle exactly as oneTBB does (middle = begin + (end - begin) / 2; the new object becomes
// the right part, the argument keeps the left part).
#ifndef VERIF_TBB_BLOCKED_RANGE_H
#define VERIF_TBB_BLOCKED_RANGE_H
#include <cstddef>
#include "verif_sched.h"

namespace tbb {

    template<typename Value>
    class blocked_range {
    public:
        typedef Value const_iterator;
        typedef std::size_t size_type;

        blocked_range(Value begin_, Value end_, size_type grainsize_ = 1) :
                my_end(end_), my_begin(begin_), my_grainsize(grainsize_) {
        }
        blocked_range(blocked_range &r, split) :
                my_end(r.my_end), my_begin(do_split(r)), my_grainsize(r.my_grainsize) {
        }

        const_iterator begin() const { return my_begin; }
        const_iterator end() const { return my_end; }
        size_type size() const { return size_type(my_end - my_begin); }
        size_type grainsize() const { return my_grainsize; }
        bool empty() const { return !(my_begin < my_end); }
        bool is_divisible() const { return size() >= 2; }

    private:
        Value my_end;
        Value my_begin;
        size_type my_grainsize;

        static Value do_split(blocked_range &r) {
            Value middle = r.my_begin + (r.my_end - r.my_begin) / 2u;
            r.my_end = middle;
            return middle;
        }
    };

}
#endif
