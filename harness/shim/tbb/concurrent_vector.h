// tbb/concurrent_vector.h of the controllable fake TBB.
// concurrent_vector<T>: a growable array whose elements never move (std::deque underneath, as the real container never
// relocates).  All parallel constructs of the shim run sequentially, so push_back simply APPENDS IN EXECUTION ORDER:
// the order in which concurrently pushed elements arrive is therefore decided by the schedule (verif_sched::bits) — the
// chunks of the pushing parallel_for are executed in the order the schedule tree prescribes.
// range() / range_type / const_range_type: blocked ranges over the iterators, splittable in the middle like every range
// of the shim (grain size ignored).
#ifndef VERIF_TBB_CONCURRENT_VECTOR_H
#define VERIF_TBB_CONCURRENT_VECTOR_H
#include <cstddef>
#include <deque>
#include <initializer_list>
#include <memory>
#include <stdexcept>
#include <utility>
#include <vector>
#include "verif_sched.h"
#include "blocked_range.h"

namespace tbb {

    template<typename T, typename Allocator = std::allocator<T>>
    class concurrent_vector {
        typedef std::deque<T> rep_t;
    public:
        typedef T value_type;
        typedef Allocator allocator_type;
        typedef std::size_t size_type;
        typedef std::ptrdiff_t difference_type;
        typedef T& reference;
        typedef const T& const_reference;
        typedef T* pointer;
        typedef const T* const_pointer;
        typedef typename rep_t::iterator iterator;
        typedef typename rep_t::const_iterator const_iterator;
        typedef typename rep_t::reverse_iterator reverse_iterator;
        typedef typename rep_t::const_reverse_iterator const_reverse_iterator;

        template<typename I>
        class generic_range_type : public blocked_range<I> {
        public:
            typedef T value_type;
            typedef T& reference;
            typedef const T& const_reference;
            typedef I iterator;
            typedef std::ptrdiff_t difference_type;
            generic_range_type(I begin_, I end_, std::size_t grainsize_ = 1) : blocked_range<I>(begin_, end_, grainsize_) { }
            template<typename U>
            generic_range_type(const generic_range_type<U> &r) : blocked_range<I>(r.begin(), r.end(), r.grainsize()) { }
            generic_range_type(generic_range_type &r, split) : blocked_range<I>(r, split()) { }
        };
        typedef generic_range_type<iterator> range_type;
        typedef generic_range_type<const_iterator> const_range_type;

        concurrent_vector() { }
        explicit concurrent_vector(const allocator_type&) { }
        explicit concurrent_vector(size_type n) : rep(n) { }
        concurrent_vector(size_type n, const T &v) : rep(n, v) { }
        template<typename I> concurrent_vector(I first, I last) : rep(first, last) { }
        concurrent_vector(std::initializer_list<T> il) : rep(il) { }

        iterator push_back(const T &x) { note_push(); rep.push_back(x); return rep.end() - 1; }
        iterator push_back(T &&x) { note_push(); rep.push_back(std::move(x)); return rep.end() - 1; }
        template<typename... Args> iterator emplace_back(Args&&... args) {
            note_push(); rep.emplace_back(std::forward<Args>(args)...); return rep.end() - 1;
        }
        iterator grow_by(size_type delta) { size_type old = rep.size(); rep.resize(old + delta); return rep.begin() + old; }
        iterator grow_by(size_type delta, const T &v) { size_type old = rep.size(); rep.resize(old + delta, v); return rep.begin() + old; }
        iterator grow_to_at_least(size_type n) { size_type old = rep.size(); if (old < n) rep.resize(n); return rep.begin() + old; }

        reference operator[](size_type i) { return rep[i]; }
        const_reference operator[](size_type i) const { return rep[i]; }
        reference at(size_type i) { return rep.at(i); }
        const_reference at(size_type i) const { return rep.at(i); }
        reference front() { return rep.front(); }
        const_reference front() const { return rep.front(); }
        reference back() { return rep.back(); }
        const_reference back() const { return rep.back(); }

        size_type size() const { return rep.size(); }
        bool empty() const { return rep.empty(); }
        size_type capacity() const { return rep.size(); }
        size_type max_size() const { return rep.max_size(); }
        void reserve(size_type) { }
        void shrink_to_fit() { }
        void clear() { rep.clear(); }
        void resize(size_type n) { rep.resize(n); }
        void resize(size_type n, const T &v) { rep.resize(n, v); }
        void swap(concurrent_vector &o) { rep.swap(o.rep); }
        allocator_type get_allocator() const { return allocator_type(); }

        iterator begin() { return rep.begin(); }
        iterator end() { return rep.end(); }
        const_iterator begin() const { return rep.begin(); }
        const_iterator end() const { return rep.end(); }
        const_iterator cbegin() const { return rep.cbegin(); }
        const_iterator cend() const { return rep.cend(); }
        reverse_iterator rbegin() { return rep.rbegin(); }
        reverse_iterator rend() { return rep.rend(); }
        const_reverse_iterator rbegin() const { return rep.rbegin(); }
        const_reverse_iterator rend() const { return rep.rend(); }

        range_type range(size_type grainsize = 1) { return range_type(begin(), end(), grainsize); }
        const_range_type range(size_type grainsize = 1) const { return const_range_type(begin(), end(), grainsize); }

    private:
        rep_t rep;

        // bookkeeping for the explicit push permutation (verif_sched.h): remember where the pushes of the running
        // outermost parallel_for started
        void note_push() {
            verif_sched::State &st = verif_sched::state();
            st.n_push++;
            if (st.depth == 0 || st.push_perm.empty() || st.perm_applied) return;
            for (auto &d : st.dirty) if (d.vec == (const void*) this) return;
            verif_sched::State::Dirty d;
            d.vec = this; d.first = rep.size();
            d.size = [this]() { return rep.size(); };
            d.permute = [this](std::size_t first, const std::vector<std::size_t> &perm) {
                std::vector<T> old(rep.begin() + first, rep.end());
                for (std::size_t j = 0; j < perm.size(); j++) rep[first + j] = old[perm[j]];
            };
            st.dirty.push_back(d);
        }
    };

}
#endif
