// config.hpp used by the verification harnesses (stands in for the cmake-generated file;
// same switches as /repo/_build/include/parmcb/config.hpp).
#ifndef _PARMCB_CONFIG_HPP_
#define _PARMCB_CONFIG_HPP_
#define PARMCB_HAVE_BOOST
#define PARMCB_HAVE_TBB
#ifdef VERIF_WITH_MPI
#define PARMCB_HAVE_MPI
#endif
#ifndef VERIF_NO_INVARIANTS_CHECK      // cmake option PARMCB_INVARIANTS_CHECK (default ON); -DVERIF_NO_INVARIANTS_CHECK = the supported configuration OFF
#define PARMCB_INVARIANTS_CHECK
#endif
#ifdef VERIF_LOGGING                   // cmake option PARMCB_LOGGING (default OFF); -DVERIF_LOGGING = the supported configuration ON
#define PARMCB_LOGGING
#endif
#endif
