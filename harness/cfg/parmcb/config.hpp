// config.hpp used by the verification harnesses (stands in for the cmake-generated file;
// same switches as /repo/_build/include/parmcb/config.hpp).
#ifndef _PARMCB_CONFIG_HPP_
#define _PARMCB_CONFIG_HPP_
#define PARMCB_HAVE_BOOST
#define PARMCB_HAVE_TBB
#ifdef VERIF_WITH_MPI
#define PARMCB_HAVE_MPI
#endif
#define PARMCB_INVARIANTS_CHECK
#endif
