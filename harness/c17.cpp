// c17.cpp — runs SpVecGF2 histories on the real parmcb::SpVecGF2<U>:  U = std::size_t (default), or — case prefixed by N8 / N16 —
// U = std::uint8_t / std::uint16_t (narrow coordinate types, coordinates up to the type's maximum).
#include "common.hpp"
#include <cstdint>
#include <parmcb/spvecgf2.hpp>

template<class U> static std::set<U> mkset(const std::vector<size_t> &l) { std::set<U> s; for (auto x : l) s.insert((U) x); return s; }

template<class U> static void run_hist(Toks &t, std::ostream &out) {
    typedef parmcb::SpVecGF2<U> V;
    size_t K = t.next_sz(); t.next_sz(); size_t nops = t.next_sz();
    std::vector<V> st(K);
    out << "O";
    for (size_t n = 0; n < nops; n++) {
        std::string o = t.next();
        if (o == "U") { size_t d = t.next_sz(), i = t.next_sz(); V tmp((U) i); st[d] = tmp; }
        else if (o == "S") { size_t d = t.next_sz(); auto l = t.next_szlist(); V tmp(mkset<U>(l)); st[d] = tmp; }
        else if (o == "C") { size_t d = t.next_sz(), a = t.next_sz(); V tmp(st[a]); st[d] = tmp; }
        else if (o == "M") { size_t d = t.next_sz(), a = t.next_sz(); V tmp(std::move(st[a])); st[d] = std::move(tmp); }
        else if (o == "A") { size_t d = t.next_sz(), a = t.next_sz(); st[d] = st[a]; }
        else if (o == "P") { size_t d = t.next_sz(), a = t.next_sz(), b = t.next_sz(); st[d] = st[a] + st[b]; }
        else if (o == "Q") { size_t d = t.next_sz(), a = t.next_sz(); st[d] += st[a]; }
        else if (o == "X") { size_t d = t.next_sz(); st[d].clear(); }
        else if (o == "D") { size_t a = t.next_sz(), b = t.next_sz(); out << " " << (unsigned long long) (st[a] * st[b]); }
        else if (o == "T") { size_t a = t.next_sz(); auto l = t.next_szlist(); out << " " << (unsigned long long) (st[a] * mkset<U>(l)); }
        else if (o == "Z") { size_t a = t.next_sz(); out << " " << st[a].size(); }
        else throw std::runtime_error("bad op " + o);
    }
    for (size_t k = 0; k < K; k++) { out << " ; V"; for (auto x : st[k]) out << " " << (unsigned long long) x; }
}

int main() {
    return run_cases([](Toks &t, std::ostream &out) {
        if (t.a.size() && t.a[0] == "N8") { t.next(); run_hist<std::uint8_t>(t, out); }
        else if (t.a.size() && t.a[0] == "N16") { t.next(); run_hist<std::uint16_t>(t, out); }
        else if (t.a.size() && t.a[0] == "N64") { t.next(); run_hist<std::size_t>(t, out); }     // std::size_t with coordinates up to SIZE_MAX
        else run_hist<std::size_t>(t, out);
    });
}
