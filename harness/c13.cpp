// c13.cpp — parmcb::greedy_fvs on the real code.
#include "graph.hpp"
#include <parmcb/detail/fvs.hpp>
int main() {
    return run_cases([](Toks &t, std::ostream &out) {
        GCase<DGraph> c; read_graph(t, c);
        std::vector<DGraph::vertex_descriptor> fvs;
        parmcb::greedy_fvs(c.g, std::back_inserter(fvs));
        out << "OK";
        for (auto v : fvs) out << " " << v;
    });
}
