// c13.cpp — parmcb::greedy_fvs on the real code.
#include "graph.hpp"
#include <parmcb/detail/fvs.hpp>
int main() {
    return run_cases([](Toks &t, std::ostream &out) {
        GCase<DGraph> c; read_graph(t, c);
        std::vector<DGraph::vertex_descriptor> fvs;
        parmcb::greedy_fvs(c.g, std::back_inserter(fvs));
        // the same call through POSITIONAL output iterators (a raw pointer into pre-sized storage, a vector iterator): the same vertices at consecutive positions
        {
            const size_t n = boost::num_vertices(c.g); const DGraph::vertex_descriptor none = (DGraph::vertex_descriptor) -1;
            std::vector<DGraph::vertex_descriptor> buf(n + 1, none), buf2(n + 1, none);
            parmcb::greedy_fvs(c.g, buf.data());
            parmcb::greedy_fvs(c.g, buf2.begin());
            for (size_t i = 0; i <= n; i++) {
                DGraph::vertex_descriptor want = i < fvs.size() ? fvs[i] : none;
                if (buf[i] != want || buf2[i] != want)
                    throw std::runtime_error("positional output iterator: position " + std::to_string(i) + " holds " + std::to_string(buf[i]) + " / " + std::to_string(buf2[i])
                                             + ", back_inserter gave " + std::to_string(want) + " (" + std::to_string((size_t) -1) + " = nothing written)");
            }
        }
        out << "OK";
        for (auto v : fvs) out << " " << v;
    });
}
