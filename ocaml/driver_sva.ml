(* driver_sva.ml — glue for the exact-algorithm models (group "sva"). Trusted for the correspondence only. *)
open Model
open Common

let pr_sva b (r : z sva_result) =
  match r with
  | SvaOk (cycles, w, _) ->
      pr_str b "RET "; pr_z b w; pr_str b " N "; pr_int b (List.length cycles); pr_str b " CYC";
      List.iter (fun c -> pr_str b " "; pr_int b (List.length c); pr_nats b c) cycles
  | SvaNoIndex -> pr_str b "MODEL-NOINDEX"
  | SvaNoCycle k -> pr_str b "MODEL-NOCYCLE "; pr_nat b k
  | SvaError k -> pr_str b "MODEL-ERROR "; pr_nat b k

(* signed: graph, roots list, eord list (rank per edge id) *)
let signed t b =
  let (n, es, ws) = next_graph_raw t in
  let roots = next_list t next_nat in
  let eord = next_list t next_nat in
  pr_sva b (mcb_sva_signed_Z { nv = nat_of_int n; ge = es } ws roots eord)

(* bidir: use_hidden s spos t tpos limit|- signed-list hidden-list graph *)
let bidir t b =
  let uh = next_int t <> 0 in
  let s = next_nat t in let spos = next_int t <> 0 in
  let tg = next_nat t in let tpos = next_int t <> 0 in
  let lim = next t in
  let sg = next_list t next_nat in let hd = next_list t next_nat in
  let (n, es, ws) = next_graph_raw t in
  let limit = if lim = "-" then None else Some (z_of_string lim) in
  match bidir_Z { nv = nat_of_int n; ge = es } ws sg hd uh limit s spos tg tpos with
  | Found (c, w) -> pr_str b "F "; pr_z b w; pr_str b " "; pr_int b (List.length c); pr_nats b c
  | NotFound -> pr_str b "NF"
  | SearchError -> pr_str b "MODEL-ERROR"

let () = main [ ("signed", signed); ("bidir", bidir) ]
