(* driver.ml — thin, hand-written glue between case files and the extracted models.
   usage: model <component> < cases > results     (one case per line, one result line per case)
   Trusted for the correspondence only (parsing and printing), not for any theorem. *)
open Model

(* ---------- conversions ---------- *)
let nat_of_int (n : int) : nat =
  let rec go acc k = if k <= 0 then acc else go (S acc) (k - 1) in go O n
let int_of_nat (n : nat) : int =
  let rec go acc = function O -> acc | S m -> go (acc + 1) m in go 0 n

(* ---------- tokens ---------- *)
type toks = { a : string array; mutable i : int }
let toks_of_line (l : string) : toks =
  { a = Array.of_list (List.filter (fun s -> s <> "") (String.split_on_char ' ' l)); i = 0 }
let next t = let s = t.a.(t.i) in t.i <- t.i + 1; s
let next_int t = int_of_string (next t)
let next_nat t = nat_of_int (next_int t)
let next_list t f = let k = next_int t in List.init k (fun _ -> f t)
let has_more t = t.i < Array.length t.a

let pr_nat b n = Buffer.add_string b (string_of_int (int_of_nat n))
let pr_list b f l = List.iteri (fun i x -> if i > 0 then Buffer.add_char b ' '; f b x) l

(* ---------- C17: SpVecGF2 histories ---------- *)
let c17_op t : op =
  match next t with
  | "U" -> let d = next_nat t in let i = next_nat t in OUnit (d, i)
  | "S" -> let d = next_nat t in let l = next_list t next_nat in OSet (d, l)
  | "C" -> let d = next_nat t in let a = next_nat t in OCopy (d, a)
  | "M" -> let d = next_nat t in let a = next_nat t in OMove (d, a)
  | "A" -> let d = next_nat t in let a = next_nat t in OAssign (d, a)
  | "P" -> let d = next_nat t in let a = next_nat t in let b = next_nat t in OAdd (d, a, b)
  | "Q" -> let d = next_nat t in let a = next_nat t in OAddAssign (d, a)
  | "X" -> let d = next_nat t in OClear d
  | "D" -> let a = next_nat t in let b = next_nat t in ODot (a, b)
  | "T" -> let a = next_nat t in let l = next_list t next_nat in ODotSet (a, l)
  | "Z" -> let a = next_nat t in OSize a
  | s -> failwith ("c17: bad op " ^ s)

let c17 (t : toks) (b : Buffer.t) =
  let k = next_nat t in
  let _d = next_int t in
  let ops = next_list t c17_op in
  let (outs, vs) = run_dump k ops in
  Buffer.add_string b "O";
  List.iter (fun o -> Buffer.add_char b ' ';
              match o with OutBit x -> Buffer.add_string b (if x then "1" else "0")
                         | OutNat n -> pr_nat b n) outs;
  List.iter (fun v -> Buffer.add_string b " ; V";
              List.iter (fun x -> Buffer.add_char b ' '; pr_nat b x) v) vs

(* ---------- dispatch ---------- *)
let components : (string * (toks -> Buffer.t -> unit)) list = [
  ("c17", c17);
]

let () =
  let comp = Sys.argv.(1) in
  let f = try List.assoc comp components with Not_found -> failwith ("unknown component " ^ comp) in
  (try
    while true do
      let l = input_line stdin in
      if String.length l > 0 && l.[0] <> '#' then begin
        let b = Buffer.create 256 in
        (try f (toks_of_line l) b
         with e -> Buffer.clear b; Buffer.add_string b ("MODEL-EXCEPTION " ^ Printexc.to_string e));
        print_string (Buffer.contents b); print_newline ()
      end
    done
  with End_of_file -> ())
