(* driver.ml — thin, hand-written glue between case files and the extracted models.
   usage: model <component> < cases > results     (one case per line, one result line per case)
   Trusted for the correspondence only (parsing and printing), not for any theorem. *)
open Model

(* ---------- conversions ---------- *)
let nat_of_int (n : int) : nat =
  let rec go acc k = if k <= 0 then acc else go (S acc) (k - 1) in go O n
let int_of_nat (n : nat) : int =
  let rec go acc = function O -> acc | S m -> go (acc + 1) m in go 0 n

(* Z <-> decimal strings, through the extracted Z arithmetic (arbitrary size) *)
let z_of_small (n : int) : z =
  let rec pos k = if k = 1 then XH else if k land 1 = 0 then XO (pos (k lsr 1)) else XI (pos (k lsr 1)) in
  if n = 0 then Z0 else if n > 0 then Zpos (pos n) else Zneg (pos (-n))
let z10 = z_of_small 10
let z_of_string (s : string) : z =
  let neg = String.length s > 0 && s.[0] = '-' in
  let acc = ref Z0 in
  String.iteri (fun i c -> if not (i = 0 && (c = '-' || c = '+')) then
    acc := Z.add (Z.mul !acc z10) (z_of_small (Char.code c - 48))) s;
  if neg then Z.opp !acc else !acc
let rec small_of_pos = function XH -> 1 | XO p -> 2 * small_of_pos p | XI p -> 2 * small_of_pos p + 1
let small_of_z = function Z0 -> 0 | Zpos p -> small_of_pos p | Zneg p -> - (small_of_pos p)
let string_of_z (x : z) : string =
  match x with
  | Z0 -> "0"
  | _ ->
    let neg = (match x with Zneg _ -> true | _ -> false) in
    let a = ref (if neg then Z.opp x else x) in
    let b = Buffer.create 32 in
    let digits = ref [] in
    while !a <> Z0 do
      let (q, r) = Z.div_eucl !a z10 in
      digits := small_of_z r :: !digits; a := q
    done;
    if neg then Buffer.add_char b '-';
    List.iter (fun d -> Buffer.add_char b (Char.chr (48 + d))) !digits;
    Buffer.contents b

(* ---------- tokens ---------- *)
type toks = { a : string array; mutable i : int }
let toks_of_line (l : string) : toks =
  { a = Array.of_list (List.filter (fun s -> s <> "") (String.split_on_char ' ' l)); i = 0 }
let next t = let s = t.a.(t.i) in t.i <- t.i + 1; s
let next_int t = int_of_string (next t)
let next_nat t = nat_of_int (next_int t)
let next_list t f = let k = next_int t in List.init k (fun _ -> f t)
let has_more t = t.i < Array.length t.a

let pr_nat b n = Buffer.add_string b (string_of_int (int_of_nat n))
let pr_list b f l = List.iteri (fun i x -> if i > 0 then Buffer.add_char b ' '; f b x) l

(* ---------- C17: SpVecGF2 histories ---------- *)
let c17_op t : op =
  match next t with
  | "U" -> let d = next_nat t in let i = next_nat t in OUnit (d, i)
  | "S" -> let d = next_nat t in let l = next_list t next_nat in OSet (d, l)
  | "C" -> let d = next_nat t in let a = next_nat t in OCopy (d, a)
  | "M" -> let d = next_nat t in let a = next_nat t in OMove (d, a)
  | "A" -> let d = next_nat t in let a = next_nat t in OAssign (d, a)
  | "P" -> let d = next_nat t in let a = next_nat t in let b = next_nat t in OAdd (d, a, b)
  | "Q" -> let d = next_nat t in let a = next_nat t in OAddAssign (d, a)
  | "X" -> let d = next_nat t in OClear d
  | "D" -> let a = next_nat t in let b = next_nat t in ODot (a, b)
  | "T" -> let a = next_nat t in let l = next_list t next_nat in ODotSet (a, l)
  | "Z" -> let a = next_nat t in OSize a
  | s -> failwith ("c17: bad op " ^ s)

let c17 (t : toks) (b : Buffer.t) =
  let k = next_nat t in
  let _d = next_int t in
  let ops = next_list t c17_op in
  let (outs, vs) = run_dump k ops in
  Buffer.add_string b "O";
  List.iter (fun o -> Buffer.add_char b ' ';
              match o with OutBit x -> Buffer.add_string b (if x then "1" else "0")
                         | OutNat n -> pr_nat b n) outs;
  List.iter (fun v -> Buffer.add_string b " ; V";
              List.iter (fun x -> Buffer.add_char b ' '; pr_nat b x) v) vs

(* ---------- C18: fp / primes / SpVecFP ---------- *)
let next_z t = z_of_string (next t)
let pr_z b x = Buffer.add_string b (string_of_z x)

let c18_op t : fop =
  match next t with
  | "U" -> let d = next_nat t in let i = next_nat t in FUnit (d, i)
  | "C" -> let d = next_nat t in let a = next_nat t in FCopy (d, a)
  | "A" | "M" -> let d = next_nat t in let a = next_nat t in FAssign (d, a)     (* M = move-assignment from a temporary copy: same meaning *)
  | "P" -> let d = next_nat t in let a = next_nat t in let b = next_nat t in FAdd (d, a, b)
  | "Q" -> let d = next_nat t in let a = next_nat t in FAddAssign (d, a)
  | "S" -> let d = next_nat t in let a = next_nat t in let c = next_z t in FScale (d, a, c)
  | "R" -> let d = next_nat t in let c = next_z t in FScaleAssign (d, c)
  | "X" -> let d = next_nat t in FClear d
  | "D" -> let a = next_nat t in let b = next_nat t in FDot (a, b)
  | "Z" -> let a = next_nat t in FSize a
  | s -> failwith ("c18: bad op " ^ s)

let c18 (t : toks) (b : Buffer.t) =
  match next t with
  | "G" | "GB" ->
      let a = next_z t in let c = next_z t in
      (match ext_gcd a c with
       | GcdOk (g, x, y) -> Buffer.add_string b "G "; pr_z b g; Buffer.add_char b ' '; pr_z b x; Buffer.add_char b ' '; pr_z b y
       | GcdOutOfFuel -> Buffer.add_string b "MODEL-ERROR out-of-fuel")
  | "I" | "IB" ->
      let a = next_z t in let p = next_z t in
      (match mult_inverse a p with
       | InvOk x -> Buffer.add_string b "I "; pr_z b x
       | InvThrow -> Buffer.add_string b "THROW"
       | InvOutOfFuel -> Buffer.add_string b "MODEL-ERROR out-of-fuel")
  | "P" | "PB" ->
      let p = next_z t in Buffer.add_string b (if is_prime p then "P 1" else "P 0")
  | "V" | "VB" ->
      let p = next_z t in let k = next_nat t in let _d = next_int t in
      let ops = next_list t c18_op in
      let (outs, vs) = frun_dump p k ops in
      Buffer.add_string b "O";
      List.iter (fun o -> Buffer.add_char b ' ';
                  match o with FOutZ x -> pr_z b x | FOutNat n -> pr_nat b n) outs;
      List.iter (fun v -> Buffer.add_string b " ; V";
                  List.iter (fun (i, x) -> Buffer.add_char b ' '; pr_nat b i; Buffer.add_char b ':'; pr_z b x) v) vs
  | s -> failwith ("c18: bad kind " ^ s)

(* ---------- C18 (overflow): the traced models of FpOverflowModel.v ----------
   same case lines as c18 (the kind may carry a suffix naming the C++ type, e.g. Gi, IW); output = the c18 answer, then
   " | <smallest traced value> <largest traced value> <smallest divisor or 0>" for the computation without the
   PARMCB_INVARIANTS_CHECK extras and, for G / I / P, " | <smallest> <largest>" with them *)
let c18ov (t : toks) (b : Buffer.t) =
  let summ tr = let ((lo, hi), dv) = tsummary tr in
    Buffer.add_string b " | "; pr_z b lo; Buffer.add_char b ' '; pr_z b hi; Buffer.add_char b ' '; pr_z b dv in
  let summ2 tr = let ((lo, hi), _) = tsummary tr in
    Buffer.add_string b " | "; pr_z b lo; Buffer.add_char b ' '; pr_z b hi in
  let k = next t in
  match k.[0] with
  | 'G' ->
      let a = next_z t in let c = next_z t in
      let (r, tr) = ext_gcd_tr false a c in
      (match r with
       | GcdOk (g, x, y) -> Buffer.add_string b "G "; pr_z b g; Buffer.add_char b ' '; pr_z b x; Buffer.add_char b ' '; pr_z b y
       | GcdOutOfFuel -> Buffer.add_string b "MODEL-ERROR out-of-fuel");
      summ tr; summ2 (snd (ext_gcd_tr true a c))
  | 'I' ->
      let a = next_z t in let p = next_z t in
      let (r, tr) = mult_inverse_tr false a p in
      (match r with
       | InvOk x -> Buffer.add_string b "I "; pr_z b x
       | InvThrow -> Buffer.add_string b "THROW"
       | InvOutOfFuel -> Buffer.add_string b "MODEL-ERROR out-of-fuel");
      summ tr; summ2 (snd (mult_inverse_tr true a p))
  | 'P' ->
      let p = next_z t in
      let (r, tr) = is_prime_tr false p in
      Buffer.add_string b (if r then "P 1" else "P 0");
      summ tr; summ2 (snd (is_prime_tr true p))
  | 'V' ->
      let p = next_z t in let k = next_nat t in let _d = next_int t in
      let ops = next_list t c18_op in
      let ((outs, vs), tr) = frun_tr_dump p k ops in
      Buffer.add_string b "O";
      List.iter (fun o -> Buffer.add_char b ' ';
                  match o with FOutZ x -> pr_z b x | FOutNat n -> pr_nat b n) outs;
      List.iter (fun v -> Buffer.add_string b " ; V";
                  List.iter (fun (i, x) -> Buffer.add_char b ' '; pr_nat b i; Buffer.add_char b ':'; pr_z b x) v) vs;
      summ tr
  | _ -> failwith ("c18ov: bad kind " ^ k)

(* ---------- graphs ---------- *)
(* tokens: n m (u v w)*m  -> (graph, weights as Z list) *)
let next_graph t : graph * z list =
  let n = next_int t in let m = next_int t in
  let es = ref [] and ws = ref [] in
  for _ = 1 to m do
    let u = next_nat t in let v = next_nat t in let w = next_z t in
    es := (u, v) :: !es; ws := w :: !ws
  done;
  ({ nv = nat_of_int n; ge = List.rev !es }, List.rev !ws)
let pr_nats b l = List.iter (fun x -> Buffer.add_char b ' '; pr_nat b x) l

(* ---------- C16 ---------- *)
let c16 t b =
  let (g, _) = next_graph t in
  let roots = next_list t next_nat in
  match create_index g roots with
  | None -> Buffer.add_string b "MODEL-NONE"
  | Some fi ->
      Buffer.add_string b "K "; pr_nat b fi.fi_k; Buffer.add_string b " CSD "; pr_nat b fi.fi_csd;
      Buffer.add_string b " IDX"; pr_nats b fi.fi_idx;
      Buffer.add_string b " REV"; pr_nats b fi.fi_rev;
      Buffer.add_string b " ONF";
      List.iter (fun i -> Buffer.add_string b (if Nat.ltb i fi.fi_csd then " 0" else " 1")) fi.fi_idx;
      (match spanning_forest g roots with
       | Some (f, k) -> Buffer.add_string b " COPY 1 K2 "; pr_nat b k; Buffer.add_string b " EMIT"; pr_nats b f
       | None -> Buffer.add_string b " SF-NONE")

(* ---------- C13 ---------- *)
let c13 t b =
  let (g, _) = next_graph t in
  let picks = next_list t next_nat in
  match greedy_fvs g picks with
  | FvsOk out -> Buffer.add_string b "OK"; pr_nats b out
  | FvsBadPick v -> Buffer.add_string b "BADPICK "; pr_nat b v
  | FvsIncomplete -> Buffer.add_string b "INCOMPLETE"
  | FvsOutOfFuel -> Buffer.add_string b "FUEL"

(* ---------- C15 ---------- *)
let c15 t b =
  match next t with
  | "B" ->
      let s = next_nat t in let tg = next_nat t in let h = next t in
      let mh = if h = "inf" then None else Some (nat_of_int (int_of_string h)) in
      let (g, _) = next_graph t in
      (match is_bfs_reachable g s tg mh with
       | Some r -> Buffer.add_string b (if r then "B 1" else "B 0")
       | None -> Buffer.add_string b "MODEL-FUEL")
  | ("S" | "M") as kind ->
      let k = next_nat t in
      let (g, w) = next_graph t in
      (* S: the scan order is given.  M: the retained and the dropped sequence as observed on the implementation are given and the
         scan order is recovered HERE by the extracted merge_scan (SpannerModel.v; C15_recovered_scan_reproduces is about that function) *)
      let scan = if kind = "S" then next_list t next_nat
                 else (let r = next_list t next_nat in let d = next_list t next_nat in merge_scan w r d) in
      (match construct_spanner g k scan with
       | SpOk sp ->
           Buffer.add_string b "NV "; pr_nat b sp.sp_graph.nv;
           Buffer.add_string b " RET"; pr_nats b sp.retained;
           Buffer.add_string b " DROP"; pr_nats b sp.dropped;
           Buffer.add_string b " SPE"; List.iter (fun (u, v) -> Buffer.add_char b ' '; pr_nat b u; Buffer.add_char b ' '; pr_nat b v) sp.sp_graph.ge;
           Buffer.add_string b " SPW"; List.iter (fun x -> Buffer.add_char b ' '; pr_z b x) (spanner_weights w sp);
           Buffer.add_string b " MAPSIZE "; Buffer.add_string b (string_of_int (List.length sp.retained))
       | SpSelfLoop -> Buffer.add_string b "IMPL-EXCEPTION Self loops?"
       | SpBadEdge -> Buffer.add_string b "MODEL-BADEDGE"
       | SpOutOfFuel -> Buffer.add_string b "MODEL-FUEL")
  | s -> failwith ("c15: bad kind " ^ s)

(* ---------- dispatch ---------- *)
let components : (string * (toks -> Buffer.t -> unit)) list = [
  ("c17", c17);
  ("c18", c18);
  ("c18ov", c18ov);
  ("c16", c16);
  ("c13", c13);
  ("c15", c15);
]

let () =
  let comp = Sys.argv.(1) in
  let f = try List.assoc comp components with Not_found -> failwith ("unknown component " ^ comp) in
  (try
    while true do
      let l = input_line stdin in
      if String.length l > 0 && l.[0] <> '#' then begin
        let b = Buffer.create 256 in
        (try f (toks_of_line l) b
         with e -> Buffer.clear b; Buffer.add_string b ("MODEL-EXCEPTION " ^ Printexc.to_string e));
        print_string (Buffer.contents b); print_newline ()
      end
    done
  with End_of_file -> ())
