(* driver_c12.ml — glue for the C12 correspondence: prints the model's shortest-path trees in the format of
   harness/c12.cpp.  Trusted for the correspondence only (parsing and printing).
   case:  T s <graph> | I s <graph>     one tree        -> "T" then per vertex " | node dist pred parent first"
          ALL <graph> | ALLI <graph>    trees of all sources -> the trees separated by " ;"
   a vertex without node prints "0 - - - first"; the root prints pred = parent = -1. *)
open Model
open Common

let graph_of t =
  let (n, es, ws) = next_graph_raw t in
  ({ nv = nat_of_int n; ge = es }, ws)

let err_string = function
  | LxFuel -> "MODEL-ERROR fuel" | LxRange -> "MODEL-ERROR range" | LxNotInHeap -> "MODEL-ERROR not-in-heap"
  | LxNoNode -> "MODEL-ERROR no-node" | LxOk _ -> "ok"

let pr_tree b g (tr : z sp_tree) =
  pr_str b "T";
  let n = int_of_nat g.nv in
  for v = 0 to n - 1 do
    let vn = nat_of_int v in
    pr_str b " | ";
    (match sp_node_of tr vn with
     | None -> pr_str b "0 - - -"
     | Some nd ->
         pr_str b "1 "; pr_z b nd.sn_weight;
         (match nd.sn_pred with
          | None -> pr_str b " -1 -1"
          | Some e ->
              pr_str b " "; pr_nat b e;
              (match opposite g e vn with
               | Some u -> pr_str b " "; pr_nat b u
               | None -> pr_str b " ?")));
    pr_str b " "; pr_nat b (sp_first tr vn)
  done

let one t b =
  let s = next_nat t in
  let (g, ws) = graph_of t in
  match sptree_Z g ws s with
  | LxOk tr -> pr_tree b g tr
  | e -> pr_str b (err_string e)

let all t b =
  let (g, ws) = graph_of t in
  match sptrees_all_Z g ws with
  | LxOk trs -> pr_str b "ALL"; List.iter (fun tr -> pr_str b " ; "; pr_tree b g tr) trs
  | e -> pr_str b (err_string e)

let c12 t b =
  match next t with
  | "T" | "I" | "TV" -> one t b
  | "ALL" | "ALLI" -> all t b
  | s -> failwith ("c12: bad kind " ^ s)

let () = Common.main [ ("c12", c12) ]
