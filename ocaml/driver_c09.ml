(* driver_c09.ml — glue for the binary64 instance of the signed-search model (group "c09").
   Weights are read as C99 hex floats (Float64.of_string = float_of_string, exact on hex floats) and every float is
   printed as a hex float (Float64.to_hex_string, "%h"), so the comparison with the harness is bit-exact.
   Must be linked with the ocamlfind package coq-core.kernel (module Float64). Trusted for the correspondence only. *)
open Model
open Common

let next_f t = Float64.of_string (next t)
let pr_f b x = Buffer.add_string b (Float64.to_hex_string x)

(* tokens: n m (u v w)*m with hex-float weights *)
let next_graph_f t =
  let n = next_int t in let m = next_int t in
  let es = ref [] and ws = ref [] in
  for _ = 1 to m do
    let u = next_nat t in let v = next_nat t in let w = next_f t in
    es := (u, v) :: !es; ws := w :: !ws
  done;
  (n, List.rev !es, List.rev !ws)

let pr_sva b r =
  match r with
  | SvaOk (cycles, w, _) ->
      pr_str b "RET "; pr_f b w; pr_str b " N "; pr_int b (List.length cycles); pr_str b " CYC";
      List.iter (fun c -> pr_str b " "; pr_int b (List.length c); pr_nats b c) cycles
  | SvaNoIndex -> pr_str b "MODEL-NOINDEX"
  | SvaNoCycle k -> pr_str b "MODEL-NOCYCLE "; pr_nat b k
  | SvaError k -> pr_str b "MODEL-ERROR "; pr_nat b k

(* signed: graph, roots list, eord list (rank per edge id); prints also the per-phase weights *)
let signed t b =
  let (n, es, ws) = next_graph_f t in
  let roots = next_list t next_nat in
  let eord = next_list t next_nat in
  let (r, pw) = mcb_sva_signed_F_w { nv = nat_of_int n; ge = es } ws roots eord in
  pr_sva b r;
  pr_str b " W"; List.iter (fun x -> pr_str b " "; pr_f b x) pw

(* the same through the plain entry (no weight list): must print the same RET/N/CYC prefix *)
let signed_plain t b =
  let (n, es, ws) = next_graph_f t in
  let roots = next_list t next_nat in
  let eord = next_list t next_nat in
  pr_sva b (mcb_sva_signed_F { nv = nat_of_int n; ge = es } ws roots eord)

(* bidir: use_hidden s spos t tpos limit|- signed-list hidden-list graph *)
let bidir t b =
  let uh = next_int t <> 0 in
  let s = next_nat t in let spos = next_int t <> 0 in
  let tg = next_nat t in let tpos = next_int t <> 0 in
  let lim = next t in
  let sg = next_list t next_nat in let hd = next_list t next_nat in
  let (n, es, ws) = next_graph_f t in
  let limit = if lim = "-" then None else Some (Float64.of_string lim) in
  match bidir_F { nv = nat_of_int n; ge = es } ws sg hd uh limit s spos tg tpos with
  | Found (c, w) -> pr_str b "F "; pr_f b w; pr_str b " "; pr_int b (List.length c); pr_nats b c
  | NotFound -> pr_str b "NF"
  | SearchError -> pr_str b "MODEL-ERROR"

let () = main [ ("signed", signed); ("signed_plain", signed_plain); ("bidir", bidir) ]
