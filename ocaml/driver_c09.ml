(* driver_c09.ml — glue for the binary64 instances of the signed-search model and of the tree-based variants (group "c09").
   Weights are read as C99 hex floats (Float64.of_string = float_of_string, exact on hex floats) and every float is
   printed as a hex float (Float64.to_hex_string, "%h"), so the comparison with the harness is bit-exact.
   Must be linked with the ocamlfind package coq-core.kernel (module Float64). Trusted for the correspondence only. *)
open Model
open Common

let next_f t = Float64.of_string (next t)
let pr_f b x = Buffer.add_string b (Float64.to_hex_string x)

(* tokens: n m (u v w)*m with hex-float weights *)
let next_graph_f t =
  let n = next_int t in let m = next_int t in
  let es = ref [] and ws = ref [] in
  for _ = 1 to m do
    let u = next_nat t in let v = next_nat t in let w = next_f t in
    es := (u, v) :: !es; ws := w :: !ws
  done;
  (n, List.rev !es, List.rev !ws)

let pr_sva b r =
  match r with
  | SvaOk (cycles, w, _) ->
      pr_str b "RET "; pr_f b w; pr_str b " N "; pr_int b (List.length cycles); pr_str b " CYC";
      List.iter (fun c -> pr_str b " "; pr_int b (List.length c); pr_nats b c) cycles
  | SvaNoIndex -> pr_str b "MODEL-NOINDEX"
  | SvaNoCycle k -> pr_str b "MODEL-NOCYCLE "; pr_nat b k
  | SvaError k -> pr_str b "MODEL-ERROR "; pr_nat b k

(* signed: graph, roots list, eord list (rank per edge id); prints also the per-phase weights *)
let signed t b =
  let (n, es, ws) = next_graph_f t in
  let roots = next_list t next_nat in
  let eord = next_list t next_nat in
  let (r, pw) = mcb_sva_signed_F_w { nv = nat_of_int n; ge = es } ws roots eord in
  pr_sva b r;
  pr_str b " W"; List.iter (fun x -> pr_str b " "; pr_f b x) pw

(* the same through the plain entry (no weight list): must print the same RET/N/CYC prefix *)
let signed_plain t b =
  let (n, es, ws) = next_graph_f t in
  let roots = next_list t next_nat in
  let eord = next_list t next_nat in
  pr_sva b (mcb_sva_signed_F { nv = nat_of_int n; ge = es } ws roots eord)

(* bidir: use_hidden s spos t tpos limit|- signed-list hidden-list graph *)
let bidir t b =
  let uh = next_int t <> 0 in
  let s = next_nat t in let spos = next_int t <> 0 in
  let tg = next_nat t in let tpos = next_int t <> 0 in
  let lim = next t in
  let sg = next_list t next_nat in let hd = next_list t next_nat in
  let (n, es, ws) = next_graph_f t in
  let limit = if lim = "-" then None else Some (Float64.of_string lim) in
  match bidir_F { nv = nat_of_int n; ge = es } ws sg hd uh limit s spos tg tpos with
  | Found (c, w) -> pr_str b "F "; pr_f b w; pr_str b " "; pr_int b (List.length c); pr_nats b c
  | NotFound -> pr_str b "NF"
  | SearchError -> pr_str b "MODEL-ERROR"

(* ---- tree-based variants (TreesFloatModel.v) ------------------------------------------------------------------- *)

let graph_f t = let (n, es, ws) = next_graph_f t in ({ nv = nat_of_int n; ge = es }, ws)

let lx_err = function
  | LxFuel -> "MODEL-ERROR fuel" | LxRange -> "MODEL-ERROR range" | LxNotInHeap -> "MODEL-ERROR not-in-heap"
  | LxNoNode -> "MODEL-ERROR no-node" | LxOk _ -> "ok"
let cd_err = function
  | CdTreeErr -> "MODEL-ERROR tree" | CdFvsErr -> "MODEL-ERROR fvs" | CdInconsistent -> "MODEL-ERROR inconsistent"
  | CdFuel -> "MODEL-ERROR fuel" | CdOk _ -> "ok"
let tbuilder_of = function "fvs" -> TbFvs | "iso" -> TbIso | "horton" -> TbHorton | s -> failwith ("bad alg " ^ s)

(* trees: <graph> -> the format of harness/c09.cpp kind T *)
let pr_tree_f b g (tr : Float64.t sp_tree) =
  pr_str b "T";
  let n = int_of_nat g.nv in
  for v = 0 to n - 1 do
    let vn = nat_of_int v in
    pr_str b " | ";
    (match sp_node_of tr vn with
     | None -> pr_str b "0 - - -"
     | Some nd ->
         pr_str b "1 "; pr_f b nd.sn_weight;
         (match nd.sn_pred with
          | None -> pr_str b " -1 -1"
          | Some e ->
              pr_str b " "; pr_nat b e;
              (match opposite g e vn with
               | Some u -> pr_str b " "; pr_nat b u
               | None -> pr_str b " ?")));
    pr_str b " "; pr_nat b (sp_first tr vn)
  done

let trees t b =
  let (g, ws) = graph_f t in
  match tf_sptrees_all g ws with
  | LxOk trs -> pr_str b "ALL"; List.iter (fun tr -> pr_str b " ; "; pr_tree_f b g tr) trs
  | e -> pr_str b (lx_err e)

(* cands: <graph> <f> picks -> the format of harness/c09.cpp kind C; then " STRICT same|inconsistent|differs|error" (does the
   generic ISO model, which has no std::map::operator[] default, agree with the builder as executed?) *)
let pr_cands_f b (trees : Float64.t sp_tree list) (cs : Float64.t cand list) =
  let ta = Array.of_list trees in
  pr_str b " "; pr_int b (List.length cs);
  List.iter (fun c ->
    pr_str b " "; pr_nat b ta.(int_of_nat c.c_tree).st_src;
    pr_str b " "; pr_nat b c.c_edge; pr_str b " "; pr_f b c.c_weight) cs;
  pr_str b " T "; pr_int b (List.length trees);
  List.iter (fun tr ->
    pr_str b " "; pr_nat b tr.st_src;
    List.iter (fun o ->
      match o with
      | None -> pr_str b " -2"
      | Some nd -> (match nd.sn_pred with None -> pr_str b " -1" | Some e -> pr_str b " "; pr_nat b e)) tr.st_nodes) trees

let cands t b =
  let (g, ws) = graph_f t in
  let picks = next_list t next_nat in
  (match tf_horton_cycles g ws with
   | CdOk (trees, cs) -> pr_str b "H"; pr_cands_f b trees cs
   | e -> pr_str b ("H " ^ cd_err e));
  (match tf_fvs_cycles g ws picks with
   | CdOk (trees, cs) -> pr_str b " F"; pr_cands_f b trees cs
   | e -> pr_str b (" F " ^ cd_err e));
  let iso = tf_iso_cycles g ws in
  (match iso with
   | CdOk (trees, cs) -> pr_str b " I"; pr_cands_f b trees cs
   | e -> pr_str b (" I " ^ cd_err e));
  pr_str b " STRICT ";
  (match tf_iso_cycles_strict g ws, iso with
   | CdOk (_, cs), CdOk (_, cs') ->
       let key c = (int_of_nat c.c_tree, int_of_nat c.c_edge, Float64.to_hex_string c.c_weight) in
       pr_str b (if List.map key cs = List.map key cs' then "same" else "differs")
   | CdInconsistent, _ -> pr_str b "inconsistent"
   | _, _ -> pr_str b "error")

(* run: <alg> <graph> <r> roots <f> picks <c> order -> "RET hex N k CYC (len ids)*k W hex*k FND bits SG (len ids)*k" *)
let pr_go b r =
  match r with
  | GoOk (phases, total, _) ->
      pr_str b "RET "; pr_f b total; pr_str b " N "; pr_int b (List.length phases); pr_str b " CYC";
      List.iter (fun p -> pr_str b " "; pr_int b (List.length p.gp_cycle); pr_nats b p.gp_cycle) phases;
      pr_str b " W"; List.iter (fun p -> pr_str b " "; pr_f b p.gp_weight) phases;
      pr_str b " FND"; List.iter (fun p -> pr_str b (if p.gp_found then " 1" else " 0")) phases;
      pr_str b " SG"; List.iter (fun p -> pr_str b " "; pr_int b (List.length p.gp_signed); pr_nats b p.gp_signed) phases
  | GoNoIndex -> pr_str b "MODEL-NOINDEX"
  | GoNoCollection -> pr_str b "MODEL-NOCOLLECTION"
  | GoBadOrder -> pr_str b "MODEL-BADORDER"
  | GoError k -> pr_str b "MODEL-ERROR "; pr_nat b k

let run t b =
  let alg = tbuilder_of (next t) in
  let (g, ws) = graph_f t in
  let roots = next_list t next_nat in
  let picks = next_list t next_nat in
  let order = next_list t next_nat in
  pr_go b (tf_mcb_sva_trees_go alg g ws roots picks order)

(* lookup: <alg> <q> (<k> ids)*q <graph> <f> picks <c> order -> "L q (F hexw len ids | NF hexw 0)*q" *)
let lookup t b =
  let alg = tbuilder_of (next t) in
  let sets = next_list t (fun t -> next_list t next_nat) in
  let (g, ws) = graph_f t in
  let picks = next_list t next_nat in
  let order = next_list t next_nat in
  pr_str b "L "; pr_int b (List.length sets);
  match tf_lookup_direct alg g ws picks order sets with
  | None -> List.iter (fun _ -> pr_str b " MODEL-NOCOLLECTION") sets
  | Some answers ->
      List.iter (fun a ->
        match a with
        | TrOk (Some (c, w)) -> pr_str b " F "; pr_f b w; pr_str b " "; pr_int b (List.length c); pr_nats b c
        | TrOk None -> pr_str b " NF "; pr_f b f64_zero; pr_str b " 0"
        | _ -> pr_str b " MODEL-ERROR") answers

(* accept: <alg> <graph> <r> roots <f> picks <k> (len ids)*k -> "ACC hex" | "REJ"   (the acceptance model of TreesModel.v over the collection as executed) *)
let accept t b =
  let alg = tbuilder_of (next t) in
  let (g, ws) = graph_f t in
  let roots = next_list t next_nat in
  let picks = next_list t next_nat in
  let cycles = next_list t (fun t -> next_list t next_nat) in
  match tf_mcb_sva_trees_accept_dflt alg g ws roots picks cycles with
  | Some w -> pr_str b "ACC "; pr_f b w
  | None -> pr_str b "REJ"

(* explain: <alg> <graph> <r> roots <f> picks <k> (len ids)*k -> "EXPLAINED bits" (bit j = 1: phase j took the run's cycle,
   0: the run emitted an empty cycle there and the model's lookup of that phase comes up empty) | "UNEXPLAINED k" *)
let explain t b =
  let alg = tbuilder_of (next t) in
  let (g, ws) = graph_f t in
  let roots = next_list t next_nat in
  let picks = next_list t next_nat in
  let cycles = next_list t (fun t -> next_list t next_nat) in
  match tf_mcb_sva_trees_explain alg g ws roots picks cycles with
  | GoOk (phases, _, _) -> pr_str b "EXPLAINED"; List.iter (fun p -> pr_str b (if p.gp_found then " 1" else " 0")) phases
  | GoError k -> pr_str b "UNEXPLAINED "; pr_nat b k
  | GoNoIndex -> pr_str b "MODEL-NOINDEX"
  | GoNoCollection -> pr_str b "MODEL-NOCOLLECTION"
  | GoBadOrder -> pr_str b "MODEL-BADORDER"

let () = main [ ("signed", signed); ("signed_plain", signed_plain); ("bidir", bidir);
                ("trees", trees); ("cands", cands); ("run", run); ("lookup", lookup); ("accept", accept); ("explain", explain) ]
