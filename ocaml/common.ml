(* common.ml — shared glue for the per-group model drivers (ocaml/driver_<group>.ml): conversions between OCaml ints /
   strings and the extracted nat / Z, case tokenizer, printing helpers, main loop.  Every group's extraction must
   include: Z.add Z.mul Z.opp Z.div_eucl.  Trusted for the correspondence only. *)
open Model

(* ---------- conversions ---------- *)
let nat_of_int (n : int) : nat =
  let rec go acc k = if k <= 0 then acc else go (S acc) (k - 1) in go O n
let int_of_nat (n : nat) : int =
  let rec go acc = function O -> acc | S m -> go (acc + 1) m in go 0 n

(* Z <-> decimal strings, through the extracted Z arithmetic (arbitrary size) *)
let z_of_small (n : int) : z =
  let rec pos k = if k = 1 then XH else if k land 1 = 0 then XO (pos (k lsr 1)) else XI (pos (k lsr 1)) in
  if n = 0 then Z0 else if n > 0 then Zpos (pos n) else Zneg (pos (-n))
let z10 = z_of_small 10
let z_of_string (s : string) : z =
  let neg = String.length s > 0 && s.[0] = '-' in
  let acc = ref Z0 in
  String.iteri (fun i c -> if not (i = 0 && (c = '-' || c = '+')) then
    acc := Z.add (Z.mul !acc z10) (z_of_small (Char.code c - 48))) s;
  if neg then Z.opp !acc else !acc
let rec small_of_pos = function XH -> 1 | XO p -> 2 * small_of_pos p | XI p -> 2 * small_of_pos p + 1
let small_of_z = function Z0 -> 0 | Zpos p -> small_of_pos p | Zneg p -> - (small_of_pos p)
let string_of_z (x : z) : string =
  match x with
  | Z0 -> "0"
  | _ ->
    let neg = (match x with Zneg _ -> true | _ -> false) in
    let a = ref (if neg then Z.opp x else x) in
    let b = Buffer.create 32 in
    let digits = ref [] in
    while !a <> Z0 do
      let (q, r) = Z.div_eucl !a z10 in
      digits := small_of_z r :: !digits; a := q
    done;
    if neg then Buffer.add_char b '-';
    List.iter (fun d -> Buffer.add_char b (Char.chr (48 + d))) !digits;
    Buffer.contents b

(* ---------- tokens ---------- *)
type toks = { a : string array; mutable i : int }
let toks_of_line (l : string) : toks =
  { a = Array.of_list (List.filter (fun s -> s <> "") (String.split_on_char ' ' l)); i = 0 }
let next t = let s = t.a.(t.i) in t.i <- t.i + 1; s
let next_int t = int_of_string (next t)
let next_nat t = nat_of_int (next_int t)
let next_list t f = let k = next_int t in List.init k (fun _ -> f t)
let has_more t = t.i < Array.length t.a

let pr_nat b n = Buffer.add_string b (string_of_int (int_of_nat n))
let pr_list b f l = List.iteri (fun i x -> if i > 0 then Buffer.add_char b ' '; f b x) l

let next_z t = z_of_string (next t)
let pr_z b x = Buffer.add_string b (string_of_z x)


let pr_nats b l = List.iter (fun x -> Buffer.add_char b ' '; pr_nat b x) l
let pr_zs b l = List.iter (fun x -> Buffer.add_char b ' '; pr_z b x) l
let pr_str b s = Buffer.add_string b s
let pr_int b i = Buffer.add_string b (string_of_int i)
let rec list_of_n n f = if n <= 0 then [] else let x = f () in x :: list_of_n (n - 1) f

(* tokens: n m (u v w)*m  -> (n, edge list as (nat*nat), weights as Z list) *)
let next_graph_raw t : int * (nat * nat) list * z list =
  let n = next_int t in let m = next_int t in
  let es = ref [] and ws = ref [] in
  for _ = 1 to m do
    let u = next_nat t in let v = next_nat t in let w = next_z t in
    es := (u, v) :: !es; ws := w :: !ws
  done;
  (n, List.rev !es, List.rev !ws)

let main (components : (string * (toks -> Buffer.t -> unit)) list) =
  let comp = Sys.argv.(1) in
  let f = try List.assoc comp components with Not_found -> failwith ("unknown component " ^ comp) in
  (try
    while true do
      let l = input_line stdin in
      if String.length l > 0 && l.[0] <> '#' then begin
        let b = Buffer.create 256 in
        (try f (toks_of_line l) b
         with e -> Buffer.clear b; Buffer.add_string b ("MODEL-EXCEPTION " ^ Printexc.to_string e));
        print_string (Buffer.contents b); print_newline ()
      end
    done
  with End_of_file -> ())
