(* driver_c03.ml — glue for the models of mcb_sva_signed_tbb and of the TBB lookup of the tree-based variants (group "c03").
   Trusted for the correspondence only.
     signedtbb : graph, roots list, eord list (rank per edge id), nbits, bitstring|-, push permutation list (may be empty)
                 -> RET w N k CYC (len ids)* POS <schedule bits consumed>
     sched     : nbits, bitstring|-, pos, len
                 -> TREE <tree> POS <new position> FORKS <f> CHUNKS (lo len)* ORDER <indices in execution order>
                 (the schedule tree the shim builds for a range of len elements at stream position pos) *)
open Model
open Common

let next_bits t =
  let nb = next_int t in
  let s = next t in
  let l = if s = "-" then [] else List.init (String.length s) (fun i -> s.[i] = '1') in
  if List.length l <> nb then failwith "bit count mismatch";
  l

let pr_sva b (r : z sva_result) =
  match r with
  | SvaOk (cycles, w, _) ->
      pr_str b "RET "; pr_z b w; pr_str b " N "; pr_int b (List.length cycles); pr_str b " CYC";
      List.iter (fun c -> pr_str b " "; pr_int b (List.length c); pr_nats b c) cycles
  | SvaNoIndex -> pr_str b "MODEL-NOINDEX"
  | SvaNoCycle k -> pr_str b "MODEL-NOCYCLE "; pr_nat b k
  | SvaError k -> pr_str b "MODEL-ERROR "; pr_nat b k

let signedtbb t b =
  let (n, es, ws) = next_graph_raw t in
  let roots = next_list t next_nat in
  let eord = next_list t next_nat in
  let bits = next_bits t in
  let perm = if has_more t then next_list t next_nat else [] in
  let (r, pos) = mcb_sva_signed_tbb_Z { nv = nat_of_int n; ge = es } ws roots eord bits perm in
  pr_sva b r; pr_str b " POS "; pr_nat b pos

let rec pr_tree b = function
  | Run l -> pr_str b "R"; pr_nat b l
  | Seq (rf, x, y) -> pr_str b (if rf then "(S< " else "(S> "); pr_tree b x; pr_str b " "; pr_tree b y; pr_str b ")"
  | Fork (rf, x, y) -> pr_str b (if rf then "(F< " else "(F> "); pr_tree b x; pr_str b " "; pr_tree b y; pr_str b ")"

let sched t b =
  let bits = next_bits t in
  let pos = next_nat t in let len = next_nat t in
  let (tr, p) = sched_of_bits bits pos len in
  pr_str b "TREE "; pr_tree b tr; pr_str b " POS "; pr_nat b p; pr_str b " FORKS "; pr_nat b (forks tr);
  pr_str b " CHUNKS"; List.iter (fun (lo, l) -> pr_str b " "; pr_nat b lo; pr_str b " "; pr_nat b l) (chunks_of tr O);
  pr_str b " ORDER"; pr_nats b (exec_order tr O)

(* ---- the TBB lookup of the tree-based variants (ParTreesModel) ----------------------------------------------------------
     treesrun    : <fvs|iso|horton> <wmax> graph, roots list, picks list, arr list, nbits, bitstring|-
                   -> RET w N k CYC (len ids)* POS <bits consumed>            (mcb_sva_trees_tbb_Z)
     treeslookup : <fvs|iso|horton> <wmax> graph, picks list, arr list, nbits, bitstring|-, ncalls, (k ids)*ncalls
                   -> CAND n (root edge w)* CALLS m (R found w|MAX k ids P pos)*   (pt_lookup_call_Z: one lookup object)
     treesbuild  : <fvs|iso|horton> graph, picks list, signed list, nq, (i use lim)*nq
                   -> CAND n (root edge w)* Q nq (i use lim found w k ids)*         (pt_build_call_Z: direct builder calls) *)
let builder_of = function
  | "fvs" -> TbFvs | "iso" -> TbIso | "horton" -> TbHorton | s -> failwith ("unknown builder " ^ s)

let pr_cands b (trees : z sp_tree list) (cs : z cand list) =
  let ta = Array.of_list trees in
  pr_str b "CAND "; pr_int b (List.length cs);
  List.iter (fun c ->
    pr_str b " "; pr_nat b ta.(int_of_nat c.c_tree).st_src;
    pr_str b " "; pr_nat b c.c_edge; pr_str b " "; pr_z b c.c_weight) cs

let err_name = function TrNoNode -> "MODEL-ERROR nonode" | TrRange -> "MODEL-ERROR range" | TrFuel -> "MODEL-ERROR fuel" | TrOk _ -> "ok"

let treesrun t b =
  let bld = builder_of (next t) in
  let wmax = next_z t in
  let (n, es, ws) = next_graph_raw t in
  let roots = next_list t next_nat in
  let picks = next_list t next_nat in
  let arr = next_list t next_nat in
  let bits = next_bits t in
  match mcb_sva_trees_tbb_Z wmax bld { nv = nat_of_int n; ge = es } ws roots picks arr bits with
  | (PtRun r, pos) -> pr_sva b r; pr_str b " POS "; pr_nat b pos
  | (PtNoCollection, _) -> pr_str b "MODEL-NOCOLLECTION"
  | (PtBadArrangement, _) -> pr_str b "MODEL-BADARRANGEMENT"

let treeslookup t b =
  let bld = builder_of (next t) in
  let wmax = next_z t in
  let (n, es, ws) = next_graph_raw t in
  let picks = next_list t next_nat in
  let arr = next_list t next_nat in
  let bits = next_bits t in
  let sgs = next_list t (fun t -> next_list t next_nat) in
  match pt_lookup_call_Z wmax bld { nv = nat_of_int n; ge = es } ws picks arr sgs bits with
  | PtCallNoCollection -> pr_str b "MODEL-NOCOLLECTION"
  | PtCallBadArrangement -> pr_str b "MODEL-BADARRANGEMENT"
  | PtCall (sorted, trees, rs) ->
      pr_cands b trees sorted;
      pr_str b " CALLS "; pr_int b (List.length rs);
      List.iter (fun (r, pos) ->
        (match r with
         | TrOk ((c, w), found) ->
             pr_str b (if found then " R 1 " else " R 0 ");
             if w = wmax then pr_str b "MAX" else pr_z b w;
             pr_str b " "; pr_int b (List.length c); pr_nats b c
         | e -> pr_str b " "; pr_str b (err_name e));
        pr_str b " P "; pr_nat b pos) rs

let treesbuild t b =
  let bld = builder_of (next t) in
  let (n, es, ws) = next_graph_raw t in
  let picks = next_list t next_nat in
  let sg = next_list t next_nat in
  let qs = next_list t (fun t -> let i = next_nat t in let u = next_int t <> 0 in let l = next_z t in (i, (u, l))) in
  match pt_build_call_Z bld { nv = nat_of_int n; ge = es } ws picks sg qs with
  | PtBuildNoCollection -> pr_str b "MODEL-NOCOLLECTION"
  | PtBuildNoParities -> pr_str b "MODEL-NOPARITIES"
  | PtBuild (cands, trees, rs) ->
      pr_cands b trees cands;
      pr_str b " Q "; pr_int b (List.length rs);
      List.iter2 (fun (i, (u, l)) r ->
        pr_str b " "; pr_nat b i; pr_str b (if u then " 1 " else " 0 "); pr_z b l;
        (match r with
         | TrOk (TcFound (c, w)) -> pr_str b " 1 "; pr_z b w; pr_str b " "; pr_int b (List.length c); pr_nats b c
         | TrOk TcNot -> pr_str b " 0 0 0"
         | e -> pr_str b " "; pr_str b (err_name e))) qs rs

let () = main [ ("signedtbb", signedtbb); ("sched", sched);
                ("treesrun", treesrun); ("treeslookup", treeslookup); ("treesbuild", treesbuild) ]
