(* driver_c03.ml — glue for the model of mcb_sva_signed_tbb (group "c03"). Trusted for the correspondence only.
     signedtbb : graph, roots list, eord list (rank per edge id), nbits, bitstring|-, push permutation list (may be empty)
                 -> RET w N k CYC (len ids)* POS <schedule bits consumed>
     sched     : nbits, bitstring|-, pos, len
                 -> TREE <tree> POS <new position> FORKS <f> CHUNKS (lo len)* ORDER <indices in execution order>
                 (the schedule tree the shim builds for a range of len elements at stream position pos) *)
open Model
open Common

let next_bits t =
  let nb = next_int t in
  let s = next t in
  let l = if s = "-" then [] else List.init (String.length s) (fun i -> s.[i] = '1') in
  if List.length l <> nb then failwith "bit count mismatch";
  l

let pr_sva b (r : z sva_result) =
  match r with
  | SvaOk (cycles, w, _) ->
      pr_str b "RET "; pr_z b w; pr_str b " N "; pr_int b (List.length cycles); pr_str b " CYC";
      List.iter (fun c -> pr_str b " "; pr_int b (List.length c); pr_nats b c) cycles
  | SvaNoIndex -> pr_str b "MODEL-NOINDEX"
  | SvaNoCycle k -> pr_str b "MODEL-NOCYCLE "; pr_nat b k
  | SvaError k -> pr_str b "MODEL-ERROR "; pr_nat b k

let signedtbb t b =
  let (n, es, ws) = next_graph_raw t in
  let roots = next_list t next_nat in
  let eord = next_list t next_nat in
  let bits = next_bits t in
  let perm = if has_more t then next_list t next_nat else [] in
  let (r, pos) = mcb_sva_signed_tbb_Z { nv = nat_of_int n; ge = es } ws roots eord bits perm in
  pr_sva b r; pr_str b " POS "; pr_nat b pos

let rec pr_tree b = function
  | Run l -> pr_str b "R"; pr_nat b l
  | Seq (rf, x, y) -> pr_str b (if rf then "(S< " else "(S> "); pr_tree b x; pr_str b " "; pr_tree b y; pr_str b ")"
  | Fork (rf, x, y) -> pr_str b (if rf then "(F< " else "(F> "); pr_tree b x; pr_str b " "; pr_tree b y; pr_str b ")"

let sched t b =
  let bits = next_bits t in
  let pos = next_nat t in let len = next_nat t in
  let (tr, p) = sched_of_bits bits pos len in
  pr_str b "TREE "; pr_tree b tr; pr_str b " POS "; pr_nat b p; pr_str b " FORKS "; pr_nat b (forks tr);
  pr_str b " CHUNKS"; List.iter (fun (lo, l) -> pr_str b " "; pr_nat b lo; pr_str b " "; pr_nat b l) (chunks_of tr O);
  pr_str b " ORDER"; pr_nats b (exec_order tr O)

let () = main [ ("signedtbb", signedtbb); ("sched", sched) ]
