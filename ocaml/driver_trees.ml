(* driver_trees.ml — glue for the tree-based exact algorithms (group "trees").  Trusted for the correspondence only
   (parsing and printing).
     fvsaccept | isoaccept | hortonaccept :  <graph> <r> roots <f> picks <N> (<len> ids)*N
         replays the emitted cycles (each given as its SORTED edge-id list) through TreesModel.mcb_sva_trees_replay_Z:
         ACCEPT <total> | REJECT <phase> [EMPTY] | REJECT-COUNT <given> <consumed> | MODEL-...
     first : <fvs|iso|horton> <graph> <r> roots <f> picks
         the deterministic resolution: RET <total> N <n> CYC (<len> ids)*
     run : <fvs|iso|horton> <graph> <r> roots <f> picks <c> order
         the run AS EXECUTED (TreesFloatModel.mcb_sva_trees_go_Z: builder with the std::map default, the arrangement `order` left
         by std::sort validated by ts_arrange, first answering candidate of the arranged scan, the loop that goes on):
         RET <total> N <k> CYC (<len> ids)*k W <w>*k FND <bit>*k SG (<len> ids)*k ORDER <same|differs>
         | MODEL-BADORDER | MODEL-NOCOLLECTION | MODEL-NOINDEX | MODEL-ERROR k
         ORDER: whether mcb_sva_trees_order (the run in the vocabulary of SvaModel, what the theorems are stated about) is
         SvaOk with the same cycles and total *)
open Model
open Common

let builder_of = function
  | "fvs" -> TbFvs | "iso" -> TbIso | "horton" -> TbHorton | s -> failwith ("unknown builder " ^ s)

let read_case t =
  let (n, es, ws) = next_graph_raw t in
  let roots = next_list t next_nat in
  let picks = next_list t next_nat in
  ({ nv = nat_of_int n; ge = es }, ws, roots, picks)

let accept bld t b =
  let (g, ws, roots, picks) = read_case t in
  let cycles = next_list t (fun t -> next_list t next_nat) in
  match mcb_sva_trees_replay_Z bld g ws roots picks cycles with
  | TNoCollection -> pr_str b "MODEL-NOCOLLECTION"
  | TRun (SvaOk (cs, w, _)) ->
      if List.length cs = List.length cycles then (pr_str b "ACCEPT "; pr_z b w)
      else (pr_str b "REJECT-COUNT "; pr_int b (List.length cycles); pr_str b " "; pr_int b (List.length cs))
  | TRun SvaNoIndex -> pr_str b "MODEL-NOINDEX"
  | TRun (SvaNoCycle k) ->
      let ki = int_of_nat k in
      pr_str b "REJECT "; pr_int b ki;
      (match List.nth_opt cycles ki with
       | Some [] -> pr_str b " EMPTY"
       | None -> pr_str b " MISSING"
       | _ -> ())
  | TRun (SvaError k) -> pr_str b "MODEL-ERROR "; pr_nat b k

let first t b =
  let bld = builder_of (next t) in
  let (g, ws, roots, picks) = read_case t in
  match mcb_sva_trees_first_Z bld g ws roots picks with
  | TNoCollection -> pr_str b "MODEL-NOCOLLECTION"
  | TRun (SvaOk (cycles, w, _)) ->
      pr_str b "RET "; pr_z b w; pr_str b " N "; pr_int b (List.length cycles); pr_str b " CYC";
      List.iter (fun c -> pr_str b " "; pr_int b (List.length c); pr_nats b c) cycles
  | TRun SvaNoIndex -> pr_str b "MODEL-NOINDEX"
  | TRun (SvaNoCycle k) -> pr_str b "MODEL-NOCYCLE "; pr_nat b k
  | TRun (SvaError k) -> pr_str b "MODEL-ERROR "; pr_nat b k

let run t b =
  let bld = builder_of (next t) in
  let (g, ws, roots, picks) = read_case t in
  let order = next_list t next_nat in
  match mcb_sva_trees_go_Z bld g ws roots picks order with
  | GoOk (phases, total, sup) ->
      pr_str b "RET "; pr_z b total; pr_str b " N "; pr_int b (List.length phases); pr_str b " CYC";
      List.iter (fun p -> pr_str b " "; pr_int b (List.length p.gp_cycle); pr_nats b p.gp_cycle) phases;
      pr_str b " W"; List.iter (fun p -> pr_str b " "; pr_z b p.gp_weight) phases;
      pr_str b " FND"; List.iter (fun p -> pr_str b (if p.gp_found then " 1" else " 0")) phases;
      pr_str b " SG"; List.iter (fun p -> pr_str b " "; pr_int b (List.length p.gp_signed); pr_nats b p.gp_signed) phases;
      pr_str b " ORDER ";
      (match mcb_sva_trees_order Z0 Z.add Z.ltb bld g ws roots picks order with
       | TRun (SvaOk (cs, w, sup')) when cs = List.map (fun p -> p.gp_cycle) phases && Z.eqb w total && sup' = sup -> pr_str b "same"
       | _ -> pr_str b "differs")
  | GoNoIndex -> pr_str b "MODEL-NOINDEX"
  | GoNoCollection -> pr_str b "MODEL-NOCOLLECTION"
  | GoBadOrder -> pr_str b "MODEL-BADORDER"
  | GoError k -> pr_str b "MODEL-ERROR "; pr_nat b k

let () = main [ ("fvsaccept", accept TbFvs); ("isoaccept", accept TbIso); ("hortonaccept", accept TbHorton);
                ("first", first); ("run", run) ]
