(* driver_trees.ml — glue for the tree-based exact algorithms (group "trees").  Trusted for the correspondence only
   (parsing and printing).
     fvsaccept | isoaccept | hortonaccept :  <graph> <r> roots <f> picks <N> (<len> ids)*N
         replays the emitted cycles (each given as its SORTED edge-id list) through TreesModel.mcb_sva_trees_replay_Z:
         ACCEPT <total> | REJECT <phase> [EMPTY] | REJECT-COUNT <given> <consumed> | MODEL-...
     first : <fvs|iso|horton> <graph> <r> roots <f> picks
         the deterministic resolution: RET <total> N <n> CYC (<len> ids)* *)
open Model
open Common

let builder_of = function
  | "fvs" -> TbFvs | "iso" -> TbIso | "horton" -> TbHorton | s -> failwith ("unknown builder " ^ s)

let read_case t =
  let (n, es, ws) = next_graph_raw t in
  let roots = next_list t next_nat in
  let picks = next_list t next_nat in
  ({ nv = nat_of_int n; ge = es }, ws, roots, picks)

let accept bld t b =
  let (g, ws, roots, picks) = read_case t in
  let cycles = next_list t (fun t -> next_list t next_nat) in
  match mcb_sva_trees_replay_Z bld g ws roots picks cycles with
  | TNoCollection -> pr_str b "MODEL-NOCOLLECTION"
  | TRun (SvaOk (cs, w, _)) ->
      if List.length cs = List.length cycles then (pr_str b "ACCEPT "; pr_z b w)
      else (pr_str b "REJECT-COUNT "; pr_int b (List.length cycles); pr_str b " "; pr_int b (List.length cs))
  | TRun SvaNoIndex -> pr_str b "MODEL-NOINDEX"
  | TRun (SvaNoCycle k) ->
      let ki = int_of_nat k in
      pr_str b "REJECT "; pr_int b ki;
      (match List.nth_opt cycles ki with
       | Some [] -> pr_str b " EMPTY"
       | None -> pr_str b " MISSING"
       | _ -> ())
  | TRun (SvaError k) -> pr_str b "MODEL-ERROR "; pr_nat b k

let first t b =
  let bld = builder_of (next t) in
  let (g, ws, roots, picks) = read_case t in
  match mcb_sva_trees_first_Z bld g ws roots picks with
  | TNoCollection -> pr_str b "MODEL-NOCOLLECTION"
  | TRun (SvaOk (cycles, w, _)) ->
      pr_str b "RET "; pr_z b w; pr_str b " N "; pr_int b (List.length cycles); pr_str b " CYC";
      List.iter (fun c -> pr_str b " "; pr_int b (List.length c); pr_nats b c) cycles
  | TRun SvaNoIndex -> pr_str b "MODEL-NOINDEX"
  | TRun (SvaNoCycle k) -> pr_str b "MODEL-NOCYCLE "; pr_nat b k
  | TRun (SvaError k) -> pr_str b "MODEL-ERROR "; pr_nat b k

let () = main [ ("fvsaccept", accept TbFvs); ("isoaccept", accept TbIso); ("hortonaccept", accept TbHorton);
                ("first", first) ]
