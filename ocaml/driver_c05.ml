(* driver_c05.ml — glue for the approximate-algorithm models (group "c05"). Trusted for the correspondence only.
   Components (one case per line):
     signed : k <graph> <scan list> <roots list> <eord list>            approx_mcb_sva_signed, oracles of the spanner
     given  : k <graph> <scan list> <sw> N <cycle 1 (spanner ids)> ..   tree-based entry points, exact phase's answer supplied
     dijk   : s <graph>                                                  plain dijkstra: DIST .. PRED ..
     fvstrees : k <graph> <scan list> <roots list> <picks list> N <cycle 1 (spanner ids, sorted)> ..
                                                                         tree-based entry points, exact phase = ACCEPTED run of
                                                                         mcb_sva_fvs_trees on the spanner (MODEL-ERROR exact = rejected)
     signedtbb : k <graph> <scan> <roots> <eord> nbits <bits|-> <perm1> <permc> <permw>
                                                                         approx_mcb_sva_signed_tbb under the schedule stream
     giventbb  : k <graph> <scan> <sw> N <cycles> <pos1> nbits <bits|-> <permc> <permw>
                                                                         tree-based TBB entry points, exact phase's answer and the
                                                                         stream position after it supplied
   TBB components print additionally  POS <schedule bits consumed>
   Output: SPR <retained> SPD <dropped> then  THROW runtime_error EMITTED 0  |  RET w N n CYC len ids ...  | MODEL-ERROR <kind> *)
open Model
open Common

(* the scan order: either given ("<n> e1 .. en") or, after the token M, the retained and the dropped sequence observed on the implementation,
   merged here by the extracted merge_scan (SpannerModel.v; SpannerScanProofs.merge_run / C15_recovered_scan_reproduces are about that function) *)
let next_scan t ws =
  if t.a.(t.i) = "M" then (ignore (next t); let r = next_list t next_nat in let d = next_list t next_nat in merge_scan ws r d)
  else next_list t next_nat

let pr_spanner b g k scan =
  match construct_spanner g k scan with
  | SpOk sp -> pr_str b "SPR"; pr_nats b sp.retained; pr_str b " SPD"; pr_nats b sp.dropped; pr_str b " "
  | _ -> pr_str b "SPR SPD "

let pr_result b (r : approx_result) =
  match r with
  | ApproxOk (cycles, w) ->
      pr_str b "RET "; pr_z b w; pr_str b " N "; pr_int b (List.length cycles); pr_str b " CYC";
      List.iter (fun c -> pr_str b " "; pr_int b (List.length c); pr_nats b c) cycles
  | ApproxThrow -> pr_str b "THROW runtime_error EMITTED 0"
  | ApproxError e ->
      pr_str b ("MODEL-ERROR " ^ (match e with AeSpanner -> "spanner" | AeExact -> "exact" | AeMap -> "map" | AeEdge -> "edge"
                                              | AeDijkstra -> "dijkstra" | AeChain -> "chain"))

let signed t b =
  let k = next_nat t in
  let (n, es, ws) = next_graph_raw t in
  let scan = next_scan t ws in
  let roots = next_list t next_nat in
  let eord = next_list t next_nat in
  let g = { nv = nat_of_int n; ge = es } in
  pr_spanner b g k scan;
  pr_result b (approx_sva_signed_Z g ws k scan roots eord)

let given t b =
  let k = next_nat t in
  let (n, es, ws) = next_graph_raw t in
  let scan = next_scan t ws in
  let sw = next_z t in
  let cs = next_list t (fun t -> next_list t next_nat) in
  let g = { nv = nat_of_int n; ge = es } in
  pr_spanner b g k scan;
  pr_result b (approx_sva_given cs sw g ws k scan)

let next_bits t =
  let nb = next_int t in
  let s = next t in
  let l = if s = "-" then [] else List.init (String.length s) (fun i -> s.[i] = '1') in
  if List.length l <> nb then failwith "bit count mismatch";
  l

let pr_tbb b ((r, pos) : tbb_result * nat) =
  (match r with
   | TbbRun r -> pr_result b r
   | TbbFail TbbAt -> pr_str b "MODEL-ERROR at"
   | TbbFail TbbRange -> pr_str b "MODEL-ERROR range"
   | TbbFail (TbbSeq _) -> pr_str b "MODEL-ERROR seq");
  pr_str b " POS "; pr_nat b pos

let fvstrees t b =
  let k = next_nat t in
  let (n, es, ws) = next_graph_raw t in
  let scan = next_scan t ws in
  let roots = next_list t next_nat in
  let picks = next_list t next_nat in
  let cs = next_list t (fun t -> next_list t next_nat) in
  let g = { nv = nat_of_int n; ge = es } in
  pr_spanner b g k scan;
  pr_result b (approx_sva_fvs_trees_Z g ws k scan roots picks cs)

let signedtbb t b =
  let k = next_nat t in
  let (n, es, ws) = next_graph_raw t in
  let scan = next_scan t ws in
  let roots = next_list t next_nat in
  let eord = next_list t next_nat in
  let bits = next_bits t in
  let perm1 = next_list t next_nat in
  let permc = next_list t next_nat in
  let permw = next_list t next_nat in
  let g = { nv = nat_of_int n; ge = es } in
  pr_spanner b g k scan;
  pr_tbb b (approx_sva_signed_tbb_Z g ws k scan roots eord bits perm1 permc permw)

let giventbb t b =
  let k = next_nat t in
  let (n, es, ws) = next_graph_raw t in
  let scan = next_scan t ws in
  let sw = next_z t in
  let cs = next_list t (fun t -> next_list t next_nat) in
  let pos1 = next_nat t in
  let bits = next_bits t in
  let permc = next_list t next_nat in
  let permw = next_list t next_nat in
  let g = { nv = nat_of_int n; ge = es } in
  pr_spanner b g k scan;
  pr_tbb b (approx_sva_given_tbb cs sw pos1 g ws k scan bits permc permw)

let dijk t b =
  let s = next_nat t in
  let (n, es, ws) = next_graph_raw t in
  match dijkstra Z0 Z.add Z.ltb { nv = nat_of_int n; ge = es } ws s with
  | DjOk (dist, pred) ->
      pr_str b "DIST"; List.iter (fun d -> pr_str b " "; match d with None -> pr_str b "inf" | Some x -> pr_z b x) dist;
      pr_str b " PRED"; List.iter (fun p -> pr_str b " "; match p with None -> pr_str b "-" | Some e -> pr_nat b e) pred
  | DjFuel -> pr_str b "MODEL-ERROR fuel"
  | DjBroken -> pr_str b "MODEL-ERROR broken"

let () = main [ ("signed", signed); ("given", given); ("dijk", dijk); ("fvstrees", fvstrees);
                ("signedtbb", signedtbb); ("giventbb", giventbb) ]
