(* driver_c14.ml — glue for the C14 correspondence: prints the model's three candidate collections in the format of
   harness/c14.cpp.  Trusted for the correspondence only (parsing and printing).
   case: A|AI <graph> <f> v1..vf     (the feedback vertex set recovered from the implementation run = pick oracle) *)
open Model
open Common

let err_string = function
  | CdTreeErr -> "MODEL-ERROR tree" | CdFvsErr -> "MODEL-ERROR fvs" | CdInconsistent -> "MODEL-ERROR inconsistent"
  | CdFuel -> "MODEL-ERROR fuel" | CdOk _ -> "ok"

let pr_cycles b (trees : z sp_tree list) (cs : z cand list) =
  let ta = Array.of_list trees in
  pr_str b " "; pr_int b (List.length cs);
  List.iter (fun c ->
    pr_str b " "; pr_nat b ta.(int_of_nat c.c_tree).st_src;
    pr_str b " "; pr_nat b c.c_edge; pr_str b " "; pr_z b c.c_weight) cs;
  pr_str b " T "; pr_int b (List.length trees);
  List.iter (fun tr ->
    pr_str b " "; pr_nat b tr.st_src;
    List.iter (fun o ->
      match o with
      | None -> pr_str b " -2"
      | Some nd -> (match nd.sn_pred with None -> pr_str b " -1" | Some e -> pr_str b " "; pr_nat b e)) tr.st_nodes) trees

let c14 t b =
  let _kind = next t in
  let (n, es, ws) = next_graph_raw t in
  let g = { nv = nat_of_int n; ge = es } in
  let picks = next_list t next_nat in
  (match horton_cycles_Z g ws with
   | CdOk (trees, cs) -> pr_str b "H"; pr_cycles b trees cs
   | e -> pr_str b ("H " ^ err_string e));
  (match fvs_cycles_Z g ws picks with
   | CdOk (trees, cs) -> pr_str b " F"; pr_cycles b trees cs
   | e -> pr_str b (" F " ^ err_string e));
  (match iso_cycles_Z g ws with
   | CdOk (trees, cs) -> pr_str b " I"; pr_cycles b trees cs
   | e -> pr_str b (" I " ^ err_string e))

let () = Common.main [ ("c14", c14) ]
