(* driver_c20.ml — glue between case lines and the extracted C20 model (TbbControlModel.v).
   usage: model_c20 <component> < cases > results     (one case per line, one result line per case)
   Trusted for the correspondence only (parsing and printing), not for any theorem.

   c20 / c20_orig : "<dflt> <k> op_1 .. op_k", op = "S n" | "C slot v" | "D slot"
                    -> "A a_1 .. a_i [ABORT|NOTLIVE|BADSLOT]"   (active value after each operation)
   c20demo        : "<knob F|O> <demo F|O> <prog mcb|approx|mpi> <dflt> <bhw> <verbose> <signed> <fvstrees> <isotrees>
                     <parallel> <printcycles> <count> <cores>"   (booleans 0/1)
                    -> "ALGO <name> KNOB <NA|v> SAYS <-|v> ACTIVE <a|ABORT|NOTLIVE|BADSLOT>" *)
open Model
open Common

let next_op t : op =
  match next t with
  | "S" -> let n = next_z t in OSet n
  | "C" -> let k = next_nat t in let v = next_z t in OCreate (k, v)
  | "D" -> let k = next_nat t in ODestroy k
  | s -> failwith ("bad op " ^ s)

let trace setf t b =
  let dflt = next_z t in
  let ops = next_list t next_op in
  let (tr, st) = run_trace setf dflt ops prog0 in
  pr_str b "A"; pr_zs b tr;
  (match st with Done -> () | StopAbort -> pr_str b " ABORT" | StopNotLive -> pr_str b " NOTLIVE" | StopBadSlot -> pr_str b " BADSLOT")

let next_bool t = (next_int t) <> 0

let algo_name prog a =
  let base = match a with
    | SignedTbb -> "SIGNED_TBB" | SignedSeq -> "SIGNED" | FvsTbb -> "FVS_TREES_TBB" | FvsSeq -> "FVS_TREES"
    | IsoTbb -> "ISO_TREES_TBB" | IsoSeq -> "ISO_TREES" in
  match prog with
  | "mcb" -> "MCB_SVA_" ^ base
  | "approx" -> "APPROX_MCB_SVA_" ^ base
  | "mpi" -> (match a with SignedTbb | SignedSeq -> "PAR_MCB_SVA_SIGNED" | FvsTbb | FvsSeq -> "PAR_MCB_SVA_FVS_TREES"
                         | IsoTbb | IsoSeq -> "PAR_MCB_SVA_ISO_TREES")
  | s -> failwith ("bad program " ^ s)

let demo t b =
  let kv = next t in let dv = next t in let prog = next t in
  let dflt = next_z t in let bhw = next_z t in
  let verbose = next_bool t in let sg = next_bool t in let fvs = next_bool t in let iso = next_bool t in
  let par = next_bool t in let pc = next_bool t in let cnt = next_bool t in let cores = next_z t in
  (* mcb-dimacs-mpi has no --parallel/--cores/knob: its selection is the parallel column of the same if-chain *)
  let par = if prog = "mpi" then true else par in
  let o = { o_verbose = verbose; o_signed = sg; o_fvstrees = fvs; o_isotrees = iso; o_parallel = par;
            o_printcycles = pc; o_cores_count = cnt; o_cores = cores } in
  let setf = (match kv with "F" -> set_concurrency | "O" -> set_concurrency_orig | s -> failwith ("bad knob version " ^ s)) in
  let knobf, saysf = (match prog, dv with
    | "mpi", _ -> demo_mpi_knob, (fun _ _ -> None)
    | _, "F" -> demo_knob, demo_says
    | _, "O" -> demo_knob_orig, demo_says_orig
    | _, s -> failwith ("bad demo version " ^ s)) in
  pr_str b "ALGO "; pr_str b (algo_name prog (demo_algo o));
  pr_str b " KNOB "; (match knobf bhw o with NotApplied -> pr_str b "NA" | Applied v -> pr_z b v);
  pr_str b " SAYS "; (match saysf bhw o with None -> pr_str b "-" | Some v -> pr_z b v);
  pr_str b " ACTIVE ";
  (match demo_run setf knobf dflt bhw o with
   | Ok a -> pr_z b a | Abort -> pr_str b "ABORT" | NotLive -> pr_str b "NOTLIVE" | BadSlot -> pr_str b "BADSLOT")

let () = Common.main [ ("c20", trace set_concurrency); ("c20_orig", trace set_concurrency_orig); ("c20demo", demo) ]
