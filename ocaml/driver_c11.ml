(* driver_c11.ml — glue between case lines and the extracted C11 model (DemoModel.v).
   usage: model_c11 c11 < cases > results     (one case per line, one result line per case)
   Trusted for the correspondence only (parsing and printing), not for any theorem.

   case:  <prog mcb|approx|stats|mpi> <version F|O> <P> <parse_error> <help> <input_given> <file_opens> <verbose> <k>
          <signed> <fvstrees> <isotrees> <parallel> <printcycles> <cores> <loops> <multi> <nonpos>       (booleans 0/1)
          version: F = mcb-dimacs-mpi after the fix (demo_mpi), O = as found (demo_mpi_orig); ignored by the other programs
   result, sequential programs:  ST <status> DIAG <class> RUN <entry point|NONE> OUT <line classes>
   result, MPI program:          RANKS <status|HANG per rank> DIAG <class written by rank 0> RUN <entry point rank 0 completed|NONE>
                                 OUT <line classes of rank 0 without PROC> PROC <number of processor lines>
   line classes: USAGE SIZE USINGK=<k>,<2k-1> ALGO=<entry point> WEIGHT CYCLES TIME STATS
   The model is instantiated with W := call and run := identity: LWeight carries the entry point whose result is printed;
   the driver checks that it is the one in RUN (otherwise WEIGHT?<name> is printed). *)
open Model
open Common

let next_bool t = (next_int t) <> 0

let fam = function Signed -> "SIGNED" | FvsTrees -> "FVS_TREES" | IsoTrees -> "ISO_TREES"
let call_name = function
  | CallMcb (f, par) -> "MCB_SVA_" ^ fam f ^ (if par then "_TBB" else "")
  | CallApprox (f, par, _) -> "APPROX_MCB_SVA_" ^ fam f ^ (if par then "_TBB" else "")
  | CallStats -> "STATS"
  | CallMpi f -> "PAR_MCB_SVA_" ^ fam f
let diag_name = function
  | DNone -> "NONE" | DBadArgs -> "BADARGS" | DNoInput -> "NOINPUT" | DOpenFail -> "OPENFAIL" | DLoops -> "LOOPS"
  | DMulti -> "MULTI" | DNonPos -> "NONPOS" | DBadK -> "BADK"

let line_tok (sel : call option) = function
  | LUsage -> "USAGE" | LProcessor -> "PROC" | LSize -> "SIZE"
  | LUsingK (k, a) -> "USINGK=" ^ string_of_z k ^ "," ^ string_of_z a
  | LUsingAlgo c -> "ALGO=" ^ call_name c
  | LWeight c -> if sel = Some c then "WEIGHT" else "WEIGHT?" ^ call_name c
  | LCycles -> "CYCLES" | LTime -> "TIME" | LStats -> "STATS"

let pr_out b sel (ls : call line list) =
  pr_str b " OUT";
  List.iter (fun l -> pr_str b " "; pr_str b (line_tok sel l)) ls

let run_opt = function None -> "NONE" | Some c -> call_name c

let case t b =
  let prog = next t in let ver = next t in let p = next_int t in
  let pe = next_bool t in let help = next_bool t in let inp = next_bool t in let opens = next_bool t in
  let verbose = next_bool t in let k = next_z t in
  let sg = next_bool t in let fvs = next_bool t in let iso = next_bool t in let par = next_bool t in
  let pc = next_bool t in let cores = next_z t in
  let lo = next_bool t in let mu = next_bool t in let np = next_bool t in
  let o = { o_parse_error = pe; o_help = help; o_input_given = inp; o_file_opens = opens; o_verbose = verbose; o_k = k;
            o_signed = sg; o_fvstrees = fvs; o_isotrees = iso; o_parallel = par; o_printcycles = pc; o_cores = cores } in
  let v = { v_loops = lo; v_multi = mu; v_nonpos = np } in
  let run (c : call) : call = c in
  let seq_out (r : call outcome) =
    pr_str b "ST "; pr_z b r.o_status; pr_str b " DIAG "; pr_str b (diag_name r.o_diag);
    pr_str b " RUN "; pr_str b (run_opt r.o_run); pr_out b r.o_run r.o_out in
  match prog with
  | "mcb" -> seq_out (demo_mcb run o v)
  | "approx" -> seq_out (demo_approx run o v)
  | "stats" -> seq_out (demo_stats run o v)
  | "mpi" ->
    let f = (match ver with "F" -> demo_mpi | "O" -> demo_mpi_orig | s -> failwith ("bad version " ^ s)) in
    let ends = List.init p (fun r -> f run o v (nat_of_int p) (nat_of_int r)) in
    pr_str b "RANKS";
    List.iter (fun e -> pr_str b " "; (match e with Exited r -> pr_z b r.o_status | Deadlock _ | FinalizeWait _ -> pr_str b "HANG")) ends;
    let out_of = function Exited r -> r.o_out | Deadlock (_, out) -> out | FinalizeWait r -> r.o_out in
    let e0 = List.hd ends in
    let d0 = (match e0 with Exited r -> r.o_diag | FinalizeWait r -> r.o_diag | Deadlock _ -> DNone) in
    let r0 = (match e0 with Exited r -> r.o_run | _ -> None) in
    pr_str b " DIAG "; pr_str b (diag_name d0); pr_str b " RUN "; pr_str b (run_opt r0);
    pr_out b r0 (List.filter (fun l -> l <> LProcessor) (out_of e0));
    let nproc = List.fold_left (fun a e -> a + List.length (List.filter (fun l -> l = LProcessor) (out_of e))) 0 ends in
    pr_str b " PROC "; pr_int b nproc
  | s -> failwith ("bad program " ^ s)

let () = Common.main [ ("c11", case) ]
