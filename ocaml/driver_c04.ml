(* driver_c04.ml — glue for the MPI models (group "c04"). Trusted for the correspondence only. *)
open Model
open Common

let pr_sva b (r : z sva_result) =
  match r with
  | SvaOk (cycles, w, _) ->
      pr_str b "RET "; pr_z b w; pr_str b " N "; pr_int b (List.length cycles); pr_str b " CYC";
      List.iter (fun c -> pr_str b " "; pr_int b (List.length c); pr_nats b c) cycles
  | SvaNoIndex -> pr_str b "MODEL-NOINDEX"
  | SvaNoCycle k -> pr_str b "MODEL-NOCYCLE "; pr_nat b k
  | SvaError k -> pr_str b "MODEL-ERROR "; pr_nat b k

let emitted (r : z rank_result) =
  match r with RankOut (cycles, _, _, _) -> List.length cycles | RankProtocol _ -> -1

(* rank 0's answer, then the number of cycles the other ranks emitted (the property wants 0) *)
let pr_outcome b (o : z rank_result outcome option) =
  match o with
  | None -> pr_str b "MODEL-NOINDEX"
  | Some (Done rs) ->
      (match rs with
       | [] -> pr_str b "MODEL-NORANKS"
       | r0 :: others ->
           pr_sva b (to_sva r0);
           pr_str b " OTHERS "; pr_int b (List.fold_left (fun a r -> a + emitted r) 0 others))
  | Some (Deadlock k) -> pr_str b "MODEL-DEADLOCK "; pr_nat b k
  | Some (BadRoot k) -> pr_str b "MODEL-BADROOT "; pr_nat b k
  | Some (BadScatter k) -> pr_str b "MODEL-BADSCATTER "; pr_nat b k
  | Some (BadOracle k) -> pr_str b "MODEL-BADORACLE "; pr_nat b k
  | Some OutOfFuel -> pr_str b "MODEL-FUEL"

(* signedmpi: graph, roots list, P, then P eord lists (rank per edge id) — the code as found *)
let signedmpi t b =
  let (n, es, ws) = next_graph_raw t in
  let roots = next_list t next_nat in
  let p = next_int t in
  let eords = List.init p (fun _ -> next_list t next_nat) in
  let tree = boost_reduce_tree (nat_of_int p) in
  pr_outcome b (mcb_sva_signed_mpi_orig_Z { nv = nat_of_int n; ge = es } ws roots (nat_of_int p) eords (fun _ -> tree))

(* signedmpi_fixed: graph, roots list, P — the code with pending/c04-fix-layout.patch *)
let signedmpi_fixed t b =
  let (n, es, ws) = next_graph_raw t in
  let roots = next_list t next_nat in
  let p = next_int t in
  let tree = boost_reduce_tree (nat_of_int p) in
  pr_outcome b (mcb_sva_signed_mpi_fixed_Z { nv = nat_of_int n; ge = es } ws roots (nat_of_int p) (fun _ -> tree))

(* redtree: P -> the combination expression of boost::mpi::reduce, as the harness's self-test prints it *)
let rec pr_tree b = function
  | RLeaf r -> pr_nat b r
  | RNode (x, y) -> pr_str b "("; pr_tree b x; pr_str b " "; pr_tree b y; pr_str b ")"
let redtree t b =
  let p = next_nat t in
  let tr = boost_reduce_tree p in
  pr_str b "REDTREE "; pr_tree b tr; pr_str b (if rtree_okb p tr then " OK" else " NOTAPERMUTATION")

(* slices: total P -> stride, then lo len per rank *)
let slices t b =
  let total = next_nat t in let p = next_int t in
  pr_str b "STRIDE "; pr_nat b (stride total (nat_of_int p));
  for r = 0 to p - 1 do
    pr_str b " "; pr_nat b (slice_lo total (nat_of_int p) (nat_of_int r));
    pr_str b " "; pr_nat b (slice_len total (nat_of_int p) (nat_of_int r))
  done


(* ---- the MPI tree variants per rank (MpiTreesModel.v) ---------------------------------------------------------------
   treesmpi : <fvs|iso> <seq|tbb> <graph> <r> roots <f> picks <P> then
       seq:  per rank  <n> (<tree id> <edge forest index>)*n       the rank's candidate vector in the order its sort left it
       tbb:  <phases> then per phase, per rank  <exists> [<weight> <n> <edge forest index>*n]   the reported local minima
   prints  PAIRS (rank 0's serialised list) | per rank  R r CHUNK .. CANDS (tree root eidx weight)* [SORT ok|bad] |
           per phase  PH k (L .. per rank | A 0/1 per rank)  G ..  | EMIT (the cycles rank 0 emits, as sorted edge ids) *)
let builder_of = function "fvs" -> TbFvs | "iso" -> TbIso | s -> failwith ("unknown builder " ^ s)

let pr_lres b fi (x : (nat list * z) option option) =
  match x with
  | None -> pr_str b " ERR"
  | Some None -> pr_str b " 0"
  | Some (Some (c, w)) ->
      let ix = edges_to_indices fi c in
      pr_str b " 1 "; pr_z b w; pr_str b " "; pr_int b (List.length ix); pr_nats b ix

let treesmpi t b =
  let bld = builder_of (next t) in
  let flavour = next t in
  let (n, es, ws) = next_graph_raw t in
  let g = { nv = nat_of_int n; ge = es } in
  let roots = next_list t next_nat in
  let picks = next_list t next_nat in
  let p = next_int t in
  let pn = nat_of_int p in
  match mt_all_pairs_Z bld g ws roots picks with
  | None -> pr_str b "MODEL-NOCOLLECTION"
  | Some (fi, ser) ->
      pr_str b "PAIRS "; pr_int b (List.length ser);
      List.iter (fun (v, e) -> pr_str b " "; pr_nat b v; pr_str b " "; pr_nat b e) ser;
      let idx_of e = List.nth fi.fi_idx (int_of_nat e) in
      let chunks = Array.init p (fun r -> slice pn (nat_of_int r) ser) in
      let locals = Array.map (fun ch -> mt_local_Z g ws fi ch) chunks in
      let pr_rank r =
        pr_str b " | R "; pr_int b r; pr_str b " CHUNK "; pr_int b (List.length chunks.(r));
        List.iter (fun (v, e) -> pr_str b " "; pr_nat b v; pr_str b " "; pr_nat b e) chunks.(r);
        (match locals.(r) with
         | MtOk (ts, l) ->
             pr_str b " CANDS "; pr_int b (List.length l);
             List.iter (fun c ->
               pr_str b " "; pr_nat b c.c_tree; pr_str b " ";
               (match List.nth_opt ts (int_of_nat c.c_tree) with Some tr -> pr_nat b tr.st_src | None -> pr_str b "?");
               pr_str b " "; pr_nat b (idx_of c.c_edge); pr_str b " "; pr_z b c.c_weight) l
         | MtRange -> pr_str b " MODEL-RANGE" | MtTree -> pr_str b " MODEL-TREE" | MtBadOracle -> pr_str b " MODEL-BADORACLE") in
      let tree = boost_reduce_tree pn in
      let pr_trace tr pr_local =
        List.iteri (fun k ((_, ls), gl) ->
          pr_str b " | PH "; pr_int b k; List.iteri (fun r l -> pr_local k r l) ls; pr_str b " G"; pr_lres b fi gl) tr;
        pr_str b " | EMIT "; pr_int b (List.length tr);
        List.iter (fun ((_, _), gl) ->
          match gl with
          | Some (Some (c, _)) -> pr_str b " "; pr_int b (List.length c); pr_nats b c
          | _ -> pr_str b " 0") tr in
      if flavour = "seq" then begin
        (* recover each rank's arrangement: the position, in the model's unsorted vector, of every reported (tree, edge index) *)
        let arrs = Array.init p (fun r ->
          let rep = next_list t (fun t -> let a = next_int t in let e = next_int t in (a, e)) in
          match locals.(r) with
          | MtOk (_, l) ->
              let cands = Array.of_list (List.map (fun c -> (int_of_nat c.c_tree, int_of_nat (idx_of c.c_edge))) l) in
              let used = Array.make (Array.length cands) false in
              List.map (fun key ->
                let pos = ref (Array.length cands) in
                Array.iteri (fun i k -> if !pos = Array.length cands && not used.(i) && k = key then pos := i) cands;
                if !pos < Array.length cands then used.(!pos) <- true;
                nat_of_int !pos) rep
          | _ -> []) in
        for r = 0 to p - 1 do
          pr_rank r;
          (match locals.(r) with
           | MtOk (_, l) -> (match mt_sort_Z l arrs.(r) with MtOk _ -> pr_str b " SORT ok" | _ -> pr_str b " SORT bad")
           | _ -> ())
        done;
        let local r k sv = mt_rank_lookup_seq_Z g ws fi arrs.(int_of_nat r) chunks.(int_of_nat r) k sv in
        pr_trace (mt_trace_run_Z fi pn (fun _ -> tree) local) (fun _ _ l -> pr_str b " L"; pr_lres b fi l)
      end else begin
        for r = 0 to p - 1 do pr_rank r done;
        let nph = next_int t in
        let rep = Array.init nph (fun _ -> Array.init p (fun _ ->
          let ex = next_int t in
          if ex = 0 then Some None
          else begin
            let w = next_z t in
            let ix = next_list t next_nat in
            Some (Some (indices_to_edges fi ix, w))
          end)) in
        let local r k _ =
          let ki = int_of_nat k and ri = int_of_nat r in
          if ki < nph then rep.(ki).(ri) else None in
        let tr = mt_trace_run_Z fi pn (fun _ -> tree) local in
        let svs = Array.of_list (List.map (fun ((sv, _), _) -> sv) tr) in
        pr_trace tr (fun k r l ->
          pr_str b " A ";
          match l with
          | Some bb -> pr_int b (if mt_rank_accept_tbb_Z g ws fi chunks.(r) svs.(k) bb then 1 else 0)
          | None -> pr_str b "ERR")
      end

let () = main [ ("treesmpi", treesmpi); ("signedmpi", signedmpi); ("signedmpi_fixed", signedmpi_fixed); ("redtree", redtree); ("slices", slices) ]
