(* driver_c04.ml — glue for the MPI models (group "c04"). Trusted for the correspondence only. *)
open Model
open Common

let pr_sva b (r : z sva_result) =
  match r with
  | SvaOk (cycles, w, _) ->
      pr_str b "RET "; pr_z b w; pr_str b " N "; pr_int b (List.length cycles); pr_str b " CYC";
      List.iter (fun c -> pr_str b " "; pr_int b (List.length c); pr_nats b c) cycles
  | SvaNoIndex -> pr_str b "MODEL-NOINDEX"
  | SvaNoCycle k -> pr_str b "MODEL-NOCYCLE "; pr_nat b k
  | SvaError k -> pr_str b "MODEL-ERROR "; pr_nat b k

let emitted (r : z rank_result) =
  match r with RankOut (cycles, _, _, _) -> List.length cycles | RankProtocol _ -> -1

(* rank 0's answer, then the number of cycles the other ranks emitted (the property wants 0) *)
let pr_outcome b (o : z rank_result outcome option) =
  match o with
  | None -> pr_str b "MODEL-NOINDEX"
  | Some (Done rs) ->
      (match rs with
       | [] -> pr_str b "MODEL-NORANKS"
       | r0 :: others ->
           pr_sva b (to_sva r0);
           pr_str b " OTHERS "; pr_int b (List.fold_left (fun a r -> a + emitted r) 0 others))
  | Some (Deadlock k) -> pr_str b "MODEL-DEADLOCK "; pr_nat b k
  | Some (BadRoot k) -> pr_str b "MODEL-BADROOT "; pr_nat b k
  | Some (BadScatter k) -> pr_str b "MODEL-BADSCATTER "; pr_nat b k
  | Some (BadOracle k) -> pr_str b "MODEL-BADORACLE "; pr_nat b k
  | Some OutOfFuel -> pr_str b "MODEL-FUEL"

(* signedmpi: graph, roots list, P, then P eord lists (rank per edge id) — the code as found *)
let signedmpi t b =
  let (n, es, ws) = next_graph_raw t in
  let roots = next_list t next_nat in
  let p = next_int t in
  let eords = List.init p (fun _ -> next_list t next_nat) in
  let tree = boost_reduce_tree (nat_of_int p) in
  pr_outcome b (mcb_sva_signed_mpi_orig_Z { nv = nat_of_int n; ge = es } ws roots (nat_of_int p) eords (fun _ -> tree))

(* signedmpi_fixed: graph, roots list, P — the code with pending/c04-fix-layout.patch *)
let signedmpi_fixed t b =
  let (n, es, ws) = next_graph_raw t in
  let roots = next_list t next_nat in
  let p = next_int t in
  let tree = boost_reduce_tree (nat_of_int p) in
  pr_outcome b (mcb_sva_signed_mpi_fixed_Z { nv = nat_of_int n; ge = es } ws roots (nat_of_int p) (fun _ -> tree))

(* redtree: P -> the combination expression of boost::mpi::reduce, as the harness's self-test prints it *)
let rec pr_tree b = function
  | RLeaf r -> pr_nat b r
  | RNode (x, y) -> pr_str b "("; pr_tree b x; pr_str b " "; pr_tree b y; pr_str b ")"
let redtree t b =
  let p = next_nat t in
  let tr = boost_reduce_tree p in
  pr_str b "REDTREE "; pr_tree b tr; pr_str b (if rtree_okb p tr then " OK" else " NOTAPERMUTATION")

(* slices: total P -> stride, then lo len per rank *)
let slices t b =
  let total = next_nat t in let p = next_int t in
  pr_str b "STRIDE "; pr_nat b (stride total (nat_of_int p));
  for r = 0 to p - 1 do
    pr_str b " "; pr_nat b (slice_lo total (nat_of_int p) (nat_of_int r));
    pr_str b " "; pr_nat b (slice_len total (nat_of_int p) (nat_of_int r))
  done

let () = main [ ("signedmpi", signedmpi); ("signedmpi_fixed", signedmpi_fixed); ("redtree", redtree); ("slices", slices) ]
