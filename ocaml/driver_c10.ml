(* driver_c10.ml — glue between case lines and the extracted DIMACS models (group c10).
   Trusted for the correspondence only (parsing and printing), not for any theorem.
   components:
     read / read_orig   case "R <hex>|-"  ->  "OK n m (u v num/den)*" | THROW | UNDEF | UNSUP | NONTERM | FUEL
     val                case "V n m (u v num/den)*"  ->  "V loops multi nonpos"
     print              case "P <final_nl 0|1> n m (u v mant k)*" -> "T <hex> <canonical_fits 0|1>"  (text of the canonical printer) *)
open Model
open Common

let hexdigit c = match c with
  | '0'..'9' -> Char.code c - 48 | 'a'..'f' -> Char.code c - 87 | 'A'..'F' -> Char.code c - 55
  | _ -> failwith "bad hex digit"
let bytes_of_hex (s : string) : z list =
  if s = "-" then [] else begin
    let n = String.length s / 2 in
    List.init n (fun i -> z_of_small (16 * hexdigit s.[2 * i] + hexdigit s.[2 * i + 1]))
  end
let hex_of_bytes (l : z list) : string =
  if l = [] then "-" else String.concat "" (List.map (fun b -> Printf.sprintf "%02x" (small_of_z b)) l)

let pr_q b (q : q) =
  pr_z b q.qnum; Buffer.add_char b '/'; pr_z b (Zpos q.qden)

let q_of_string (s : string) : q =
  match String.index_opt s '/' with
  | None -> { qnum = z_of_string s; qden = XH }
  | Some i ->
    let num = z_of_string (String.sub s 0 i) in
    (match z_of_string (String.sub s (i + 1) (String.length s - i - 1)) with
     | Zpos p -> { qnum = num; qden = p }
     | _ -> failwith "bad denominator")

let pr_result b (r : result) =
  match r with
  | ROk (n, es) ->
    Buffer.add_string b "OK "; pr_z b n; Buffer.add_char b ' '; pr_int b (List.length es);
    List.iter (fun ((u, v), w) -> Buffer.add_char b ' '; pr_z b u; Buffer.add_char b ' '; pr_z b v;
                Buffer.add_char b ' '; pr_q b w) es
  | RThrow -> Buffer.add_string b "THROW"
  | RUndef -> Buffer.add_string b "UNDEF"
  | RUnsup -> Buffer.add_string b "UNSUP"
  | RNonterm -> Buffer.add_string b "NONTERM"
  | RFuel -> Buffer.add_string b "FUEL"

let c_read f t b =
  (match next t with "R" -> () | k -> failwith ("bad case kind " ^ k));
  pr_result b (f (bytes_of_hex (next t)))

let c_val t b =
  (match next t with "V" -> () | k -> failwith ("bad case kind " ^ k));
  let n = next_z t in
  let m = next_int t in
  let es = list_of_n m (fun () -> let u = next_z t in let v = next_z t in let w = q_of_string (next t) in ((u, v), w)) in
  let g = (n, es) in
  let bit x = if x then "1" else "0" in
  Buffer.add_string b ("V " ^ bit (has_loops g) ^ " " ^ bit (has_multiple_edges g) ^ " " ^ bit (has_non_positive_weights g))

let c_print t b =
  (match next t with "P" -> () | k -> failwith ("bad case kind " ^ k));
  let nl = next_int t <> 0 in
  let n = next_z t in
  let m = next_int t in
  let es = list_of_n m (fun () -> let u = next_z t in let v = next_z t in let mant = next_z t in let k = next_nat t in ((u, v), (mant, k))) in
  let g = (n, es) in
  Buffer.add_string b ("T " ^ hex_of_bytes (print_dimacs nl g) ^ " " ^ (if canonical_fits g then "1" else "0")
                       ^ " " ^ (if layout_ok (canonical_layout nl g) then "1" else "0"))

let () = Common.main [ ("read", c_read read); ("read_orig", c_read read_orig); ("val", c_val); ("print", c_print) ]
