(* driver_ref.ml — glue between case lines and the extracted verified reference (RefModel.v).
   usage: model_ref <component> < cases > results   (one case per line, one result line per case)
   tokens are separated by blanks; a graph is `n m (u v w)*m`; a list is `len x1 .. xlen`.
     mcbcheck : graph, roots list, N, then N cycles each as a list of edge ids (raw order)
                -> SIMPLE <one 0/1 per cycle, no blanks, `-` if N = 0> BASIS <0/1> OPT <z|ERR> TOTAL <z> MIN <0/1>
     optw     : graph, roots list            -> OPT <z> DIM <N>   |  ERR <reason>
     oddref   : graph, list of signed edges  -> FOUND <w> <len> <edge ids sorted> | NONE | ERR
     refmcb   : graph, roots list            -> OK <w> <N> ; <cycle 1 ids> ; ...  |  ERR <reason>
   A graph that is not simple (endpoint out of range, self-loop, parallel edges) gives `ERR NOTSIMPLE`: the
   theorems about the reference assume simple_graph.  Trusted for the correspondence only. *)
open Model
open Common

let graph_of t =
  let (n, es, ws) = next_graph_raw t in
  ({ nv = nat_of_int n; ge = es }, ws)

let bit b x = Buffer.add_char b (if x then '1' else '0')

let sva_err = function
  | SvaNoIndex -> "NOINDEX"
  | SvaNoCycle k -> "NOCYCLE " ^ string_of_int (int_of_nat k)
  | SvaError k -> "SEARCHERROR " ^ string_of_int (int_of_nat k)
  | SvaOk _ -> "OK"

let mcbcheck t b =
  let (g, ws) = graph_of t in
  let roots = next_list t next_nat in
  let cs = next_list t (fun t -> next_list t next_nat) in
  if not (simpleb g) then pr_str b "ERR NOTSIMPLE" else begin
    pr_str b "SIMPLE ";
    if cs = [] then pr_str b "-" else List.iter (fun c -> bit b (is_simple_cycle_rawb g c)) cs;
    pr_str b " BASIS "; bit b (basis_checkb g roots cs);
    let opt = opt_weight g ws roots in
    pr_str b " OPT "; (match opt with Some x -> pr_z b x | None -> pr_str b "ERR");
    pr_str b " TOTAL "; pr_z b (total_weight ws cs);
    pr_str b " MIN "; bit b (mcb_check_with opt g ws roots cs)
  end

let optw t b =
  let (g, ws) = graph_of t in
  let roots = next_list t next_nat in
  if not (simpleb g) then pr_str b "ERR NOTSIMPLE" else
  match ref_mcb g ws roots with
  | SvaOk (cycles, w, _) -> pr_str b "OPT "; pr_z b w; pr_str b " DIM "; pr_int b (List.length cycles)
  | r -> pr_str b ("ERR " ^ sva_err r)

let oddref t b =
  let (g, ws) = graph_of t in
  let sg = next_list t next_nat in
  if not (simpleb g) then pr_str b "ERR NOTSIMPLE" else
  match ref_search g ws sg with
  | PFound (c, w) -> pr_str b "FOUND "; pr_z b w; pr_str b " "; pr_int b (List.length c); pr_nats b c
  | PNone -> pr_str b "NONE"
  | PError -> pr_str b "ERR"

let refmcb t b =
  let (g, ws) = graph_of t in
  let roots = next_list t next_nat in
  if not (simpleb g) then pr_str b "ERR NOTSIMPLE" else
  match ref_mcb g ws roots with
  | SvaOk (cycles, w, _) ->
      pr_str b "OK "; pr_z b w; pr_str b " "; pr_int b (List.length cycles);
      List.iter (fun c -> pr_str b " ;"; pr_nats b c) cycles
  | r -> pr_str b ("ERR " ^ sva_err r)

let () = Common.main [ ("mcbcheck", mcbcheck); ("optw", optw); ("oddref", oddref); ("refmcb", refmcb) ]
